package main

// Engine "lookups", fifth case family: what the Server-backed lookups (Server.Announce / AnnounceTraversal, Server.Bootstrap,
// getput.Get / Put and traversal.Start wired the way Bootstrap wires it) make of the REPLIES on their way into the
// traversal - the conversions between Server.Query's result and traversal.QueryResult (QueryResult.TraversalQueryResult,
// Server.GetPeers, the DoQuery closures of announce.go / bootstrap.go / exts/getput) - stated as C02, C03 and C04 on
// the wire.  The traversal engine drives traversal.Start with a scripted DoQuery and never runs this glue.
//
// Input classes
//   tokens    announce lookups whose K = 8 closest responders hand out tokens of every FORM: the empty string, one byte
//             (0x00, a letter), 200 bytes, binary bytes (0x00 / 0xff / bencode delimiters), ordinary ones, and no token at
//             all.  A token is data: its form decides nothing but "is a string" (the announce lookup's data filter).
//   honest    networks of 5-48 nodes in which EVERY node answers EVERY query with the true L >= K closest nodes of the
//             network, closest first, L = 8 .. 40 (so replies carry MORE than 8 nodes, split over nodes / nodes6 when
//             the network has IPv6 members); lookups with K = 16 (Server.Bootstrap) and with K = 1 .. 32, Alpha 1 .. 8
//             (traversal.Start with DoQuery = s.FindNode(..).TraversalQueryResult(addr), NodeFilter =
//             s.TraversalNodeFilter, exactly Bootstrap's wiring), seeded with the farthest nodes.  Also lists SHORTER than K
//             (no exactness then, the other oracles stay).
//   bridge    networks in which the only path to the closest nodes (the ones that hold the value / take the announce) leads
//             through responders that answer WITHOUT a usable token (no token: a node without BEP 44 storage, a read-only
//             node; no id either) but with nodes: get (mutable, immutable), put, announce, bootstrap.
//   early     lookups that END while queries are in flight to nodes that are slow (they never answer; the query's
//             resend delay is one hour, so nothing but a cancellation ends it): getput.Get ending on an immutable value
//             (starting node or one hop away), StopTraversing / Close of an announce, a cancelled caller context of
//             Get / Put.  The caller's context stays alive in the first two.
//   hostile   a responder lists one victim address under six ids closer than anything, itself, and addresses the node
//             filter rejects (port 0, 0.x.y.z) with the closest ids of all.
//
// Model-compared lines: the cases are ordinary lkbegin .. lkend cases (RunLookups replays issues, replies, announce_peer /
// put destinations and tokens, Peers, result); `lkexact` (honest networks, RunLookupsClosest.rlc_exact = the K closest
// of the network, Props/C02.v C02_lookups_exact_*) and `lkclosest` (the model's result set against
// traversal.Operation.Closest()).
//
// Oracles (implementation only; each demands what the property text says and nothing more):
//   C02 responder-closer-than-member-left-out:*   a responder that passed the filters (answered with r; for announce / put:
//       with a string token), is absent from the result set (the announce_peer / put destinations, Closest()) and is
//       STRICTLY closer to the target than a member.  Sound for every reading of getput's token filter: token-less
//       responders are never demanded, members are whatever the lookup announced / put to.
//   C02 result-larger-than-k:* / member-never-answered:*
//   C02 k-closest-of-honest-network-not-in-result:*  exactness clause on honest networks with L >= K.
//   C03 learned-contact-never-queried:*   the lookup ran to Stalled (no stop, no early end): every contact named in a
//       served reply's nodes / nodes6 (or a starting node) that passes the node filter got a query datagram, unless the
//       result set is full (counting EVERY responder as a member, the most permissive reading) and the contact is strictly
//       farther than the K-th closest responder.
//   C04 query-in-flight-survives-end-of-lookup:*  after Announce / Get / Put ended, Stats().OutstandingTransactions drops
//       to 0 within 3 s (queries in flight at the stop are cancelled; the ones to slow nodes would otherwise linger for an
//       hour).  Not for Bootstrap, whose DoQuery ignores its context (FindNode takes none).
//   C04 address-queried-twice:* / query-to-address-rejected-by-node-filter:*  (cases of this family only)
//
// Everything is derived from the seed PRNG; the waits are the engine's bounded ones.

import (
	"os"
	"bytes"
	"context"
	"crypto/ed25519"
	"crypto/sha1"
	"fmt"
	"math/big"
	"net"
	"sort"
	"strings"
	"time"

	"github.com/anacrolix/torrent/bencode"

	dht "github.com/anacrolix/dht/v2"
	"github.com/anacrolix/dht/v2/int160"
	k_nearest_nodes "github.com/anacrolix/dht/v2/k-nearest-nodes"
	"github.com/anacrolix/dht/v2/krpc"
	"github.com/anacrolix/dht/v2/traversal"
)

type lkClosest struct {
	fam    string       // tokens | honest | bridge | early | hostile
	k      int          // > 0: traversal.Start wired like Server.Bootstrap with this K (the model's owner is Bootstrap's)
	alpha  int          // its Alpha (0 = default)
	listL  int          // honest: entries per reply
	exact  bool         // honest network with L >= K and every node answering: the exactness clause applies
	slow   map[int]bool // nodes that never answer although their queries wait for an hour
	forms  map[int]string
	detail string
}

func (cl *lkClosest) String() string {
	var sl []int
	for i := range cl.slow {
		sl = append(sl, i)
	}
	sort.Ints(sl)
	return fmt.Sprintf("family=%s k=%d alpha=%d list=%d exact=%v slow=%v %s", cl.fam, cl.k, cl.alpha, cl.listL, cl.exact, sl, cl.detail)
}

type lkContact struct {
	id   [20]byte
	addr *net.UDPAddr
	from string // what taught it: responder-with-token | responder-without-token | starting-node
}

type lkClosestState struct {
	issued   map[string]int      // destination -> traversal query datagrams
	resp     map[string][20]byte // responders (a reply with r was served): address -> r.id
	respTok  map[string]bool     // ... whose reply carried a string token
	learned  []lkContact
	op       *traversal.Operation
	members  []krpc.NodeInfo // Closest() of the harness-started traversal, closest first
	haveMemb bool
}

func (st *lkState) closest() *lkClosestState {
	if st.cx == nil {
		st.cx = &lkClosestState{issued: map[string]int{}, resp: map[string][20]byte{}, respTok: map[string]bool{}}
	}
	return st.cx
}

var lkClosestSeed uint64

func (st *lkState) closestTag() string {
	c := st.c
	cl := "-"
	if c.cl != nil {
		cl = c.cl.String()
	}
	return fmt.Sprintf("case=%d %s (%s) sub=%d replay: h -seed %d lookups -only %d", c.idx, c.name(), cl, c.sub, lkClosestSeed, c.idx)
}

// lkValidNodeAddr: Server.TraversalNodeFilter of a server without blocklist and with NoSecurity (validNodeAddr).
func lkValidNodeAddr(a *net.UDPAddr) bool {
	if a.Port == 0 {
		return false
	}
	if v4 := a.IP.To4(); v4 != nil && v4[0] == 0 {
		return false
	}
	return true
}

func (st *lkState) closestPlain() bool {
	c := st.c
	return c.fault == nil && c.race == nil && c.block == nil && c.lim == nil && c.sn == "ok"
}

// closestIssued: a traversal query datagram left (the scheduler goroutine; called for every case of the engine).
func (st *lkState) closestIssued(q *lkQuery, report bool) {
	cx := st.closest()
	k := q.dest.String()
	cx.issued[k]++
	if !report || !st.closestPlain() {
		return
	}
	if !lkValidNodeAddr(q.dest) {
		oracle("C04", "query-to-address-rejected-by-node-filter:"+st.c.api, "%s query to %v, which Server.TraversalNodeFilter rejects: %s", q.q, q.dest, st.closestTag())
	}
	if cx.issued[k] == 2 && st.c.cl != nil {
		oracle("C04", "address-queried-twice:"+st.c.api, "second %s query of this lookup to %v: %s", q.q, q.dest, st.closestTag())
	}
}

// closestWithheld: the node is slow: its reply never comes (the query's resend delay is that of a node that answers).
func (st *lkState) closestWithheld(q *lkQuery) bool {
	cl := st.c.cl
	if cl == nil || len(cl.slow) == 0 || q.node == nil {
		return false
	}
	for i := range cl.slow {
		if st.c.nodes[i] == q.node {
			return true
		}
	}
	return false
}

// closestServed: the reply m to traversal query q is about to be injected.
func (st *lkState) closestServed(q *lkQuery, m *krpc.Msg) {
	cx := st.closest()
	if m == nil || m.R == nil {
		return
	}
	k := q.dest.String()
	cx.resp[k] = m.R.ID
	from := "responder-without-token"
	if m.R.Token != nil {
		cx.respTok[k] = true
		from = "responder-with-token"
	}
	for _, ni := range m.R.Nodes {
		cx.learned = append(cx.learned, lkContact{id: ni.ID, addr: &net.UDPAddr{IP: ni.Addr.IP, Port: ni.Addr.Port}, from: from})
	}
	for _, ni := range m.R.Nodes6 {
		cx.learned = append(cx.learned, lkContact{id: ni.ID, addr: &net.UDPAddr{IP: ni.Addr.IP, Port: ni.Addr.Port}, from: from})
	}
}

// closestTraversal: Server.BootstrapContext with another target and K (bootstrap.go line by line; the wiring is the
// point: s.FindNode(..).TraversalQueryResult(addr) and s.TraversalNodeFilter).
func (st *lkState) closestTraversal(ctx context.Context, s *dht.Server) (err error) {
	c := st.c
	cx := st.closest()
	target := int160.FromByteArray(c.target)
	op := traversal.Start(traversal.OperationInput{
		Target: c.target,
		K:      c.cl.k,
		Alpha:  c.cl.alpha,
		DoQuery: func(_ context.Context, addr krpc.NodeAddr) traversal.QueryResult {
			return s.FindNode(dht.NewAddr(addr.UDP()), target, dht.QueryRateLimiting{}).TraversalQueryResult(addr)
		},
		NodeFilter: s.TraversalNodeFilter,
	})
	nodes, err := s.TraversalStartingNodes()
	if err != nil {
		op.Stop()
		return
	}
	op.AddNodes(nodes)
	select {
	case <-ctx.Done():
		err = ctx.Err()
	case <-op.Stalled():
	}
	op.Stop()
	if err != nil {
		return
	}
	<-op.Stopped()
	op.Closest().Range(func(e k_nearest_nodes.Elem) {
		cx.members = append(cx.members, krpc.NodeInfo{ID: e.ID, Addr: e.Addr.ToNodeAddr()})
	})
	cx.haveMemb = true
	cx.op = op
	return nil
}

func lkDistLess(a, b, target [20]byte) bool {
	return lkXorDist(a, target).Cmp(lkXorDist(b, target)) < 0
}

// closestOracles: after the lookup ended (last repetition), before lkend.
func (st *lkState) closestOracles(res *lkResult) {
	c := st.c
	cx := st.closest()
	if !st.closestPlain() || res.stuck {
		return
	}
	tag := st.closestTag()
	// did the lookup run until the traversal stalled?
	ranToEnd := c.stopAt < 0 && c.consStop < 0
	switch c.api {
	case "bootstrap", "put":
		ranToEnd = ranToEnd && res.err == nil
	case "announce":
		ranToEnd = ranToEnd && res.err == nil && res.closed
	case "get":
		switch {
		case res.err == nil:
			ranToEnd = ranToEnd && res.getRet.Mutable // an immutable value ends the lookup at once
		case res.res != "notfound":
			ranToEnd = false
		}
	}
	K := 8
	if c.api == "bootstrap" {
		K = 16
	}
	if c.cl != nil && c.cl.k > 0 {
		K = c.cl.k
	}
	if c.cl != nil {
		emit("# lkclosest case=%d %s %s: issued=%d responders=%d learned=%d ran-to-end=%v res=%s", c.idx, c.name(), c.cl, len(cx.issued), len(cx.resp), len(cx.learned), ranToEnd, res.res)
	}
	// ---- responders by distance
	type rsp struct {
		addr string
		id   [20]byte
		d    *big.Int
	}
	var rs []rsp
	for a, id := range cx.resp {
		rs = append(rs, rsp{a, id, lkXorDist(id, c.target)})
	}
	sort.Slice(rs, func(i, j int) bool {
		if x := rs[i].d.Cmp(rs[j].d); x != 0 {
			return x < 0
		}
		return rs[i].addr < rs[j].addr
	})

	// ---- C03: at the stall every learned contact that passes the node filter has been queried, unless the set is full
	// and the contact is strictly farther than its farthest member
	if ranToEnd {
		var far *big.Int
		if len(rs) >= K {
			far = rs[K-1].d
		}
		var all []lkContact
		for _, i := range c.start {
			all = append(all, lkContact{addr: c.nodes[i].addr, from: "starting-node"})
		}
		all = append(all, cx.learned...)
		seen := map[string]bool{}
		for _, ct := range all {
			k := ct.addr.String()
			if seen[k+"/"+string(ct.id[:])] {
				continue
			}
			seen[k+"/"+string(ct.id[:])] = true
			if !lkValidNodeAddr(ct.addr) || cx.issued[k] > 0 {
				continue
			}
			unknownID := ct.from == "starting-node"
			if far != nil && (unknownID || lkXorDist(ct.id, c.target).Cmp(far) > 0) {
				continue
			}
			full := "result set not full"
			if far != nil {
				full = "not farther than the farthest of the K closest responders"
			}
			oracle("C03", fmt.Sprintf("learned-contact-never-queried:%s:from-%s", c.api, ct.from),
				"the lookup reported stalled (res=%s) with %v id=%s never queried (%d responders, K=%d: %s): %s", res.res, ct.addr, hx(ct.id[:]), len(rs), K, full, tag)
		}
	}

	// ---- C02: the result set, where it can be seen
	var members []*net.UDPAddr
	haveMembers := false
	needToken := false
	switch {
	case c.api == "announce" && ranToEnd && c.annOpts && (c.annPort != 0 || c.annImp):
		haveMembers, needToken = true, true
		for _, sd := range st.sends {
			members = append(members, sd.destAddr)
		}
	case c.api == "put" && ranToEnd:
		haveMembers, needToken = true, true
		for _, sd := range st.sends {
			members = append(members, sd.destAddr)
		}
	case cx.haveMemb && ranToEnd:
		haveMembers = true
		for _, m := range cx.members {
			members = append(members, &net.UDPAddr{IP: m.Addr.IP, Port: m.Addr.Port})
		}
	}
	if haveMembers {
		in := map[string]bool{}
		for _, m := range members {
			in[m.String()] = true
		}
		if len(in) > K {
			oracle("C02", "result-larger-than-k:"+c.api, "%d members, K=%d: %s", len(in), K, tag)
		}
		for a := range in {
			if _, ok := cx.resp[a]; !ok {
				oracle("C02", "member-never-answered:"+c.api, "%s is in the result set and no response of it was served: %s", a, tag)
			}
		}
		for _, x := range rs {
			if in[x.addr] || (needToken && !cx.respTok[x.addr]) {
				continue
			}
			for a := range in {
				mid, ok := cx.resp[a]
				if !ok {
					continue
				}
				if x.d.Cmp(lkXorDist(mid, c.target)) < 0 {
					form := ""
					if n := st.byAddr[x.addr]; n != nil && c.cl != nil {
						for i, nd := range c.nodes {
							if nd == n && c.cl.forms[i] != "" {
								form = ":token=" + c.cl.forms[i]
							}
						}
					}
					oracle("C02", "responder-closer-than-member-left-out:"+c.api+form,
						"%s (id %s) answered, passed the filters and is absent from the result set although strictly closer to the target than member %s (id %s); result set: %d of K=%d: %s",
						x.addr, hx(x.id[:]), a, hx(mid[:]), len(in), K, tag)
					break
				}
			}
		}
	}

	// ---- exactness on honest networks; the model's result set
	if c.cl != nil && c.cl.exact && ranToEnd {
		type nd struct {
			n *lkNode
			d *big.Int
		}
		var netw []nd
		for _, n := range c.nodes {
			netw = append(netw, nd{n, lkXorDist(n.id, c.target)})
		}
		var toks []string
		for _, x := range netw {
			toks = append(toks, hx(x.n.id[:])+"|"+addrTok(x.n.addr))
		}
		var obs []string
		obsIn := map[string]bool{}
		if cx.haveMemb {
			for _, m := range cx.members {
				a := &net.UDPAddr{IP: m.Addr.IP, Port: m.Addr.Port}
				obs = append(obs, addrTok(a))
				obsIn[a.String()] = true
			}
		} else {
			// Server.Bootstrap keeps its result set to itself: the K closest of the nodes that answered this lookup
			for i, x := range rs {
				if i >= K {
					break
				}
				if n := st.byAddr[x.addr]; n != nil {
					obs = append(obs, addrTok(n.addr))
					obsIn[x.addr] = true
				}
			}
		}
		emit("lkexact %d %d %s %d %s => %d %s", c.idx, K, hx(c.target[:]), len(toks), strings.Join(toks, " "), len(obs), strings.Join(obs, " "))
		sort.Slice(netw, func(i, j int) bool { return netw[i].d.Cmp(netw[j].d) < 0 })
		for i, x := range netw {
			if i >= K {
				break
			}
			if !obsIn[x.n.addr.String()] {
				why := "is not in the result set"
				if cx.issued[x.n.addr.String()] == 0 {
					why = "was never queried"
				}
				oracle("C02", fmt.Sprintf("k-closest-of-honest-network-not-in-result:%s:k=%d:list=%d", c.api, K, c.cl.listL),
					"every node answers with the true %d closest of the %d nodes; the %d-th closest (%v id %s) %s: %s", c.cl.listL, len(netw), i+1, x.n.addr, hx(x.n.id[:]), why, tag)
				break
			}
		}
	}
	if c.cl != nil && cx.haveMemb && c.cl.k == 16 {
		var obs []string
		for _, m := range cx.members {
			obs = append(obs, addrTok(&net.UDPAddr{IP: m.Addr.IP, Port: m.Addr.Port})+"|"+hx(m.ID[:]))
		}
		emit("lkclosest %d => %d %s", c.idx, len(obs), strings.Join(obs, " "))
	}
	out.Flush()
}

// closestQuiescence: the lookup has ended (every repetition).  C04, last sentence, on the wire: a query still in flight when
// the lookup was stopped is cancelled, so its transaction is gone at once - not after the hour its resend timer has.
func (st *lkState) closestQuiescence(res *lkResult, report bool) {
	c := st.c
	if c.api == "bootstrap" || !st.closestPlain() || res.stuck || st.s == nil {
		return
	}
	how := "stalled"
	switch {
	case c.stopAt >= 0:
		how = "stop-" + c.stopAct
	case c.api == "get" && res.err == nil && !res.getRet.Mutable:
		how = "immutable-value-found"
	}
	dl := time.Now().Add(3 * time.Second)
	for st.s.Stats().OutstandingTransactions != 0 && time.Now().Before(dl) {
		time.Sleep(100 * time.Microsecond)
	}
	if n := st.s.Stats().OutstandingTransactions; n != 0 {
		oracle("C04", fmt.Sprintf("query-in-flight-survives-end-of-lookup:%s:%s", c.api, how),
			"%d transaction(s) still outstanding 3 s after %s returned (res=%s, the caller's context is alive, %d traversal queries were issued): %s",
			n, c.api, res.res, len(st.closest().issued), st.closestTag())
	}
}

// ---------------------------------------------------------------- cases

// lkClosestNet: n nodes with distinct random ids, SORTED by distance to the target (index = rank), every one answering
// with a token of its own, no lists yet.  v6every > 0: every v6every-th node lives at an IPv6 address (its entries
// travel in nodes6).
func lkClosestNet(r *rng, n int, target [20]byte, v6every int, salt int) []*lkNode {
	var ns []*lkNode
	seen := map[[20]byte]bool{}
	for len(ns) < n {
		nd := &lkNode{kind: "r"}
		copy(nd.id[:], r.bytes(20))
		if r.intn(3) == 0 {
			p := 1 + r.intn(5)
			copy(nd.id[:p], target[:p])
		}
		if seen[nd.id] || nd.id == target {
			continue
		}
		seen[nd.id] = true
		ns = append(ns, nd)
	}
	sort.Slice(ns, func(i, j int) bool { return lkDistLess(ns[i].id, ns[j].id, target) })
	for i, nd := range ns {
		nd.addr = lkNodeAddr(i)
		if v6every > 0 && i%v6every == v6every-1 {
			nd.form = "v6"
			nd.addr = &net.UDPAddr{IP: net.ParseIP(fmt.Sprintf("2001:db8:c%x::%x", salt&0xff, i+1)), Port: 2000 + i}
		}
		tok := fmt.Sprintf("tk-%d-%x", i, r.bytes(2))
		nd.token = &tok
	}
	return ns
}

// honest lists: every node answers with the L closest nodes of the network (closest first), itself left out or not
func lkHonestLists(nodes []*lkNode, L int, includeSelf bool) {
	for i, nd := range nodes {
		nd.lists = nil
		for j := 0; j < len(nodes) && len(nd.lists) < L; j++ {
			if j == i && !includeSelf {
				continue
			}
			nd.lists = append(nd.lists, j)
		}
	}
}

func lkFarthest(n, k int) (s []int) {
	for i := n - 1; i >= 0 && len(s) < k; i-- {
		s = append(s, i)
	}
	return
}

func lkNearID(target [20]byte, j int) (id [20]byte) {
	id = target
	id[19] ^= byte(j + 1)
	id[18] ^= byte((j + 1) >> 8)
	return
}

func lookupClosestCases(seed uint64, tier string, base int) []lkCase {
	lkClosestSeed = seed
	var cs []lkCase
	root := &rng{s: seed ^ 0xc105e57}
	add := func(c lkCase) {
		c.idx = base + len(cs)
		c.reps = 1
		c.sn = "ok"
		if c.stopAct == "" {
			c.stopAt = -1
		}
		c.consStop = -1
		c.sub = root.sub(c.idx).next() | 1
		cs = append(cs, c)
	}
	mkTarget := func(r *rng) (t [20]byte) { copy(t[:], r.bytes(20)); return }
	mul := 1
	if tier == "thorough" {
		mul = 8
	}
	var ownID [20]byte
	ownID[0], ownID[19] = 0x42, 0x24
	type annOpt struct {
		opts    bool
		port    int
		imp     bool
		scrape  bool
		viaTrav bool
		name    string
	}
	annOn := []annOpt{
		{true, 6881, false, false, false, "port"},
		{true, 0, true, false, true, "traversal-api-implied"},
		{true, 6881, true, true, false, "port+implied+scrape"},
		{true, 6881, false, false, true, "traversal-api-port"},
	}
	mkAnn := func(o annOpt, target [20]byte, nodes []*lkNode, start []int, cl *lkClosest, desc string) lkCase {
		return lkCase{api: "announce", target: target, annOpts: o.opts, annPort: o.port, annImp: o.imp, scrape: o.scrape, viaTrav: o.viaTrav,
			nodes: nodes, start: start, cl: cl, desc: desc}
	}

	// ---------------- tokens: every form of token among the K closest responders of an announce ----------------
	tokenForm := func(r *rng, form string, i int) *string {
		var t string
		switch form {
		case "none":
			return nil
		case "empty":
			t = ""
		case "1byte-nul":
			t = "\x00"
		case "1byte":
			t = string(rune('a' + i%26))
		case "200bytes":
			t = string(bytes.Repeat([]byte{byte('A' + i%26)}, 199)) + "!"
		case "binary":
			t = string(append([]byte{0x00, 0xff, ':', 'e', 'd', 'i', 0x80, byte(i)}, r.bytes(1+r.intn(20))...))
		case "digits":
			t = fmt.Sprintf("%d:", 3+i)
		default:
			t = fmt.Sprintf("tk-%d-%x", i, r.bytes(2))
		}
		return &t
	}
	forms := []string{"empty", "plain", "1byte-nul", "200bytes", "binary", "1byte", "digits", "plain", "none"}
	for ni := 0; ni < 4*mul; ni++ {
		r := root.sub(100 + ni)
		n := 10 + r.intn(6)
		target := mkTarget(r)
		nodes := lkClosestNet(r, n, target, 0, ni)
		fm := map[int]string{}
		for i, nd := range nodes {
			f := forms[(i+ni*2)%len(forms)]
			if i >= 10 {
				f = forms[r.intn(len(forms))]
			}
			nd.token = tokenForm(r, f, i)
			fm[i] = f
			// everybody knows the four closest and a few others
			for j := 0; j < 4; j++ {
				if j != i {
					nd.lists = append(nd.lists, j)
				}
			}
			for j := 0; j < 3; j++ {
				if o := r.intn(n); o != i {
					nd.lists = append(nd.lists, o)
				}
			}
			if i > 0 {
				nd.lists = append(nd.lists, i-1)
			}
		}
		o := annOn[ni%len(annOn)]
		cl := &lkClosest{fam: "tokens", forms: fm}
		add(mkAnn(o, target, nodes, lkFarthest(n, 2), cl, fmt.Sprintf("token-forms-net%d-%s", ni, o.name)))
		if ni%2 == 0 {
			// the same forms on the way of a put
			pub, priv, _ := ed25519.GenerateKey(bytes.NewReader(r.bytes(64)))
			salt := []byte("tf")
			ptarget := sha1.Sum(append(append([]byte(nil), pub...), salt...))
			pn := lkClosestNet(r.sub(1), n, ptarget, 0, ni)
			pfm := map[int]string{}
			for i, nd := range pn {
				f := forms[(i+ni)%len(forms)]
				nd.token = tokenForm(r, f, i)
				pfm[i] = f
				for j := 0; j < 4; j++ {
					if j != i {
						nd.lists = append(nd.lists, j)
					}
				}
				if i > 0 {
					nd.lists = append(nd.lists, i-1)
				}
			}
			add(lkCase{api: "put", target: ptarget, salt: salt, pub: pub, priv: priv, mutable: true, putValue: "tf", nodes: pn, start: lkFarthest(n, 2),
				cl: &lkClosest{fam: "tokens", forms: pfm}, desc: fmt.Sprintf("token-forms-net%d-put", ni)})
		}
	}

	// ---------------- honest: every node answers with the true L closest, closest first ----------------
	type hcfg struct {
		k, alpha, n, l, seeds, v6 int
		self                      bool
	}
	var hs []hcfg
	// Server.Bootstrap: K = 16
	for _, h := range []hcfg{{0, 0, 40, 16, 3, 0, true}, {0, 0, 24, 20, 2, 0, false}, {0, 0, 33, 24, 3, 3, true}, {0, 0, 12, 16, 1, 0, false}, {0, 0, 30, 8, 3, 0, true}} {
		hs = append(hs, h)
	}
	// traversal.Start wired like Bootstrap
	for _, h := range []hcfg{{16, 3, 40, 16, 3, 0, true}, {16, 1, 28, 18, 2, 4, false}, {9, 3, 25, 9, 3, 0, true}, {12, 8, 30, 16, 2, 0, false},
		{20, 3, 36, 20, 3, 0, true}, {32, 3, 48, 40, 3, 5, true}, {8, 3, 30, 12, 3, 0, false}, {1, 3, 12, 4, 2, 0, true}, {2, 1, 9, 9, 1, 0, false},
		{24, 5, 20, 24, 2, 0, true}, {16, 3, 30, 8, 3, 0, true}, {5, 2, 14, 14, 14, 2, true}} {
		hs = append(hs, h)
	}
	for rep := 0; rep < mul; rep++ {
		for hi, h := range hs {
			r := root.sub(300 + hi + 50*rep)
			target := ownID
			api := "bootstrap"
			if h.k > 0 {
				target = mkTarget(r)
			}
			n := h.n
			if rep > 0 {
				n += r.intn(9)
			}
			nodes := lkClosestNet(r, n, target, h.v6, hi)
			lkHonestLists(nodes, h.l, h.self)
			K := 16
			if h.k > 0 {
				K = h.k
			}
			cl := &lkClosest{fam: "honest", k: h.k, alpha: h.alpha, listL: h.l, exact: h.l >= K || h.l >= n}
			name := "bootstrap"
			if h.k > 0 {
				name = fmt.Sprintf("traversal-k%d-alpha%d", h.k, h.alpha)
			}
			seeds := lkFarthest(n, h.seeds)
			if rep%2 == 1 {
				seeds = nil
				for len(seeds) < h.seeds {
					seeds = append(seeds, r.intn(n))
				}
			}
			add(lkCase{api: api, target: target, nodes: nodes, start: seeds, cl: cl,
				desc: fmt.Sprintf("honest-%s-n%d-list%d-seeds%d-v6every%d-%d", name, n, h.l, h.seeds, h.v6, rep)})
		}
	}

	// ---------------- bridge: the way to the closest nodes leads through responders without a token ----------------
	mkItem := func(pub ed25519.PublicKey, priv ed25519.PrivateKey, salt []byte, seq int64, val string) *lkItem {
		bv, _ := bencode.Marshal(val)
		var k [32]byte
		copy(k[:], pub)
		var sig [64]byte
		copy(sig[:], ed25519.Sign(priv, refBufferToSign(salt, bv, seq)))
		s := seq
		return &lkItem{v: bv, k: &k, sig: &sig, seq: &s}
	}
	// layout by rank: deep [0, nd), bridges [nd, nd+nb), seeds and bystanders behind; seeds list only bridges and
	// bystanders, bridges list the deep nodes, deep nodes list each other
	bridgeNet := func(r *rng, target [20]byte, nd, nb, nrest int, kind string) (nodes []*lkNode, start []int) {
		n := nd + nb + nrest
		nodes = lkClosestNet(r, n, target, 0, 0)
		for i, x := range nodes {
			switch {
			case i < nd:
				for j := 0; j < nd; j++ {
					if j != i {
						x.lists = append(x.lists, j)
					}
				}
			case i < nd+nb:
				x.token = nil
				if kind == "noid" && i%2 == 0 {
					x.noID = true
				}
				if kind == "chain" && i+1 < nd+nb {
					x.lists = []int{i + 1} // a chain of token-less nodes: only the last knows the deep ones
					continue
				}
				for j := 0; j < nd; j++ {
					x.lists = append(x.lists, j)
				}
			default:
				if kind == "chain" {
					x.lists = []int{nd}
				} else {
					for j := nd; j < nd+nb; j++ {
						x.lists = append(x.lists, j)
					}
				}
				if i+1 < n {
					x.lists = append(x.lists, i+1)
				}
				if kind == "mixed" && i%2 == 1 {
					x.token = nil // token-less seeds / bystanders too
				}
			}
		}
		start = lkFarthest(n, 1+r.intn(2))
		return
	}
	bkinds := []string{"plain", "noid", "chain", "mixed"}
	for bi := 0; bi < 4*mul; bi++ {
		r := root.sub(500 + bi)
		kind := bkinds[bi%len(bkinds)]
		pub, priv, _ := ed25519.GenerateKey(bytes.NewReader(r.bytes(64)))
		salt := [][]byte{nil, []byte("br")}[bi%2]
		target := sha1.Sum(append(append([]byte(nil), pub...), salt...))
		ndeep, nbr, nrest := 1+r.intn(3), 1+r.intn(3), 1+r.intn(3)
		if bi%4 == 3 {
			nrest = 8 + r.intn(3) // the result set is full of farther responders before the bridges answer
		}
		cl := func() *lkClosest {
			return &lkClosest{fam: "bridge", detail: fmt.Sprintf("bridge=%s deep=%d bridges=%d others=%d", kind, ndeep, nbr, nrest)}
		}
		// get / put of a mutable item: only the deep nodes hold it
		for _, api := range []string{"get", "put"} {
			nodes, start := bridgeNet(r.sub(b2i(api == "put")), target, ndeep, nbr, nrest, kind)
			for i := 0; i < ndeep; i++ {
				sq := int64(3 + i)
				nodes[i].item, nodes[i].genuine, nodes[i].flavour = mkItem(pub, priv, salt, sq, fmt.Sprintf("deep%d", sq)), true, "genuine"
			}
			add(lkCase{api: api, target: target, salt: salt, pub: pub, priv: priv, mutable: true, putValue: "mine", nodes: nodes, start: start, cl: cl(),
				desc: fmt.Sprintf("tokenless-bridge-%s-mutable-%d", kind, bi)})
		}
		// get of an immutable item
		{
			bv, _ := bencode.Marshal(fmt.Sprintf("bridged-immutable-%d", bi))
			it := sha1.Sum(bv)
			nodes, start := bridgeNet(r.sub(2), it, ndeep, nbr, nrest, kind)
			nodes[0].item, nodes[0].genuine, nodes[0].flavour = &lkItem{v: bv}, true, "genuine-immutable"
			if bi%2 == 1 {
				nodes[0].item, nodes[0].genuine = nil, false // nobody has it: the lookup must still ask everybody
			}
			add(lkCase{api: "get", target: it, nodes: nodes, start: start, cl: cl(), desc: fmt.Sprintf("tokenless-bridge-%s-immutable-%d", kind, bi)})
		}
		// announce and bootstrap over the same shape
		{
			t2 := mkTarget(r)
			nodes, start := bridgeNet(r.sub(3), t2, ndeep, nbr, nrest, kind)
			o := annOn[bi%len(annOn)]
			add(mkAnn(o, t2, nodes, start, cl(), fmt.Sprintf("tokenless-bridge-%s-%s-%d", kind, o.name, bi)))
			if bi%2 == 0 {
				nodes, start := bridgeNet(r.sub(4), ownID, ndeep, nbr, nrest, kind)
				add(lkCase{api: "bootstrap", target: ownID, nodes: nodes, start: start, cl: cl(), desc: fmt.Sprintf("tokenless-bridge-%s-bootstrap-%d", kind, bi)})
			}
		}
	}

	// ---------------- early: the lookup ends while queries to slow nodes are in flight ----------------
	for ei := 0; ei < 6*mul; ei++ {
		r := root.sub(700 + ei)
		bv, _ := bencode.Marshal(fmt.Sprintf("early-immutable-%d", ei))
		it := sha1.Sum(bv)
		n := 5 + r.intn(6)
		nodes := lkClosestNet(r, n, it, 0, 0)
		holder := r.intn(2) // one of the two closest nodes
		nodes[holder].item, nodes[holder].genuine, nodes[holder].flavour = &lkItem{v: bv}, true, "genuine-immutable"
		slow := map[int]bool{}
		var start []int
		depth := ei % 3 // 0: the holder and the slow nodes are starting nodes; 1: the holder is one hop away; 2: the slow nodes are
		for i := 2; i < n; i++ {
			if len(slow) < 1+ei%3 && r.intn(2) == 0 {
				slow[i] = true
			}
		}
		if len(slow) == 0 {
			slow[n-1] = true
		}
		var slowIdx []int
		for i := range slow {
			slowIdx = append(slowIdx, i)
		}
		sort.Ints(slowIdx)
		first := 2
		for slow[first] {
			first++
		}
		if first >= n {
			first = 1 - holder
		}
		switch depth {
		case 0:
			start = append([]int{holder, first}, slowIdx...)
		case 1:
			start = append([]int{first}, slowIdx...)
			nodes[first].lists = []int{holder}
		default:
			start = []int{first}
			nodes[first].lists = append(append([]int(nil), slowIdx...), holder)
		}
		for i, nd := range nodes {
			if i != first && !slow[i] && i != holder {
				nd.lists = []int{holder}
			}
			if i%3 == 2 {
				wrong, _ := bencode.Marshal("not-the-value")
				if i != holder {
					nd.item, nd.flavour = &lkItem{v: wrong}, "wrong-value"
				}
			}
		}
		add(lkCase{api: "get", target: it, nodes: nodes, start: start, cl: &lkClosest{fam: "early", slow: slow, detail: fmt.Sprintf("holder=%d depth=%d", holder, depth)},
			desc: fmt.Sprintf("immutable-found-with-queries-in-flight-%d-depth%d", ei, depth)})
	}
	// stop actions with slow nodes in flight beside the unanswered responsive one the engine's stop rule asks for
	for si := 0; si < 2*mul; si++ {
		r := root.sub(800 + si)
		pub, priv, _ := ed25519.GenerateKey(bytes.NewReader(r.bytes(64)))
		salt := []byte("st")
		mtarget := sha1.Sum(append(append([]byte(nil), pub...), salt...))
		for _, v := range []struct{ api, act string }{{"announce", "stoptrav"}, {"announce", "close"}, {"get", "ctx"}, {"put", "ctx"}} {
			target := mtarget
			if v.api == "announce" {
				target = mkTarget(r)
			}
			n := 5 + r.intn(4)
			nodes := lkClosestNet(r.sub(len(cs)), n, target, 0, 0)
			for i, nd := range nodes {
				if i+1 < n {
					nd.lists = []int{i + 1}
				}
				if v.api != "announce" && i%2 == 0 {
					sq := int64(1 + i)
					nd.item, nd.genuine, nd.flavour = mkItem(pub, priv, salt, sq, fmt.Sprintf("v%d", sq)), true, "genuine"
				}
			}
			slow := map[int]bool{n - 1: true}
			start := []int{0, 1, n - 1}
			if v.api != "announce" {
				slow[n-2] = true
				start = []int{0, 1, 2, n - 2, n - 1}
			}
			c := lkCase{api: v.api, target: target, nodes: nodes, start: start, stopAt: 1 + si%2, stopAct: v.act,
				cl: &lkClosest{fam: "early", slow: slow}, desc: fmt.Sprintf("%s-with-slow-nodes-in-flight-%d", v.act, si)}
			if v.api == "announce" {
				o := annOn[si%len(annOn)]
				c.annOpts, c.annPort, c.annImp, c.scrape, c.viaTrav = o.opts, o.port, o.imp, o.scrape, o.viaTrav
			} else {
				c.salt, c.pub, c.priv, c.mutable, c.putValue = salt, pub, priv, true, "mine"
			}
			add(c)
		}
	}

	// ---------------- hostile: one address under many ids, filtered addresses, the responder itself ----------------
	for hi := 0; hi < 2*mul; hi++ {
		r := root.sub(900 + hi)
		pub, priv, _ := ed25519.GenerateKey(bytes.NewReader(r.bytes(64)))
		salt := []byte("h")
		mtarget := sha1.Sum(append(append([]byte(nil), pub...), salt...))
		for vi, api := range []string{"announce", "get", "bootstrap", "trav"} {
			target := mkTarget(r)
			switch api {
			case "get":
				target = mtarget
			case "bootstrap":
				target = ownID
			}
			n := 6 + r.intn(5)
			nodes := lkClosestNet(r.sub(vi), n, target, 0, 0)
			for i, nd := range nodes {
				if i > 0 {
					nd.lists = []int{i - 1}
				}
			}
			victim := nodes[1+r.intn(n-2)]
			liar := nodes[n-1]
			for j := 0; j < 6; j++ {
				liar.extra = append(liar.extra, krpc.NodeInfo{ID: lkNearID(target, j), Addr: krpc.NodeAddr{IP: victim.addr.IP.To4(), Port: victim.addr.Port}})
			}
			liar.extra = append(liar.extra,
				krpc.NodeInfo{ID: lkNearID(target, 10), Addr: krpc.NodeAddr{IP: net.IPv4(10, 77, 0, byte(1+hi)).To4(), Port: 0}},
				krpc.NodeInfo{ID: lkNearID(target, 11), Addr: krpc.NodeAddr{IP: net.IPv4(0, 7, 7, byte(1+hi)).To4(), Port: 4000 + hi}},
				krpc.NodeInfo{ID: lkNearID(target, 12), Addr: krpc.NodeAddr{IP: liar.addr.IP.To4(), Port: liar.addr.Port}},
				krpc.NodeInfo{ID: liar.id, Addr: krpc.NodeAddr{IP: liar.addr.IP.To4(), Port: liar.addr.Port}})
			// the filter's verdict belongs to the whole address: hosts that are perfectly good contacts at their real port,
			// listed once more at port 0 AFTER they were seen (and accepted) at the real one - the victim, the liar
			// itself (a starting node), and the closest node of the network
			// (these listings serve C04 only and are generated in its runs only: see DESIGN 15.3, the C02 alarm of check 13)
			if p := os.Getenv("VERIF_PROP"); p == "C04" || p == "" {
			liar.extra = append(liar.extra,
				krpc.NodeInfo{ID: lkNearID(target, 13), Addr: krpc.NodeAddr{IP: victim.addr.IP.To4(), Port: 0}},
				krpc.NodeInfo{ID: lkNearID(target, 14), Addr: krpc.NodeAddr{IP: liar.addr.IP.To4(), Port: 0}})
			nodes[1].extra = append(nodes[1].extra,
				krpc.NodeInfo{ID: nodes[0].id, Addr: krpc.NodeAddr{IP: nodes[0].addr.IP.To4(), Port: nodes[0].addr.Port}},
				krpc.NodeInfo{ID: lkNearID(target, 15), Addr: krpc.NodeAddr{IP: nodes[0].addr.IP.To4(), Port: 0}})
			}
			if hi%2 == 1 {
				// the same victim again in a second responder's list, under other ids
				for j := 0; j < 3; j++ {
					nodes[n-2].extra = append(nodes[n-2].extra, krpc.NodeInfo{ID: lkNearID(target, 20+j), Addr: krpc.NodeAddr{IP: victim.addr.IP.To4(), Port: victim.addr.Port}})
				}
			}
			c := lkCase{api: api, target: target, nodes: nodes, start: []int{n - 1, n - 2}, cl: &lkClosest{fam: "hostile"}, desc: fmt.Sprintf("one-address-many-ids-and-filtered-addresses-%d", hi)}
			switch api {
			case "announce":
				o := annOn[hi%len(annOn)]
				c.annOpts, c.annPort, c.annImp, c.scrape, c.viaTrav = o.opts, o.port, o.imp, o.scrape, o.viaTrav
			case "get":
				c.salt, c.pub, c.priv, c.mutable = salt, pub, priv, true
				nodes[0].item, nodes[0].genuine, nodes[0].flavour = mkItem(pub, priv, salt, 4, "v4"), true, "genuine"
			case "trav":
				c.api = "bootstrap"
				c.cl.k, c.cl.alpha = 8, 3
			}
			add(c)
		}
	}
	return cs
}
