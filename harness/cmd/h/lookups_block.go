package main

// Engine "lookups", third case family (C19, also C14 / C16 / C12 / C01 as ordinary lookups cases): lookups of a Server
// that has an IP BLOCKLIST, on networks whose acceptable nodes TELL the lookup about blocked addresses.
//
//   * the list is there at construction (ServerConfig.IPBlocklist), or installed with SetIPBlockList before the
//     lookup, and / or a bigger list is installed WHILE the lookup runs; single addresses and ranges, IPv4, IPv6,
//     IPv4 nodes listed v4-mapped in nodes6;
//   * blocked addresses are among the starting nodes AND (the general class) listed in the nodes / nodes6 of replies
//     of acceptable nodes, with ids closer to the target than anything else, so that a lookup that let them into
//     its frontier would certainly pick them;
//   * late "plain": the nodes the second list covers (b2) are revealed only by the replies of the "deep" nodes, and
//     the harness installs the list before it serves the first deep reply: when SetIPBlockList runs no newly covered
//     address is known to the server in any form (no query in flight, no candidate in the frontier), so nothing
//     about them is a race;
//   * late "park" (the blocklist replaced under a running lookup's feet): the list in force is a Ranger that parks
//     the traversal's NodeFilter call for one candidate X of the first deep reply (lkFilterHold,
//     recognised by the filter's frame on the stack: Server.TraversalNodeFilter consults the list without the
//     server lock); while it is parked SetIPBlockList installs a list covering X (and the candidates that follow),
//     returns, and only then the old list's answer for X arrives.  The filter's verdict for X overlapped the
//     installation: X may or may not count as "tried" by the lookup (a DoQuery whose write is refused) - but no
//     datagram may go to X, and from then on X is blocked on every path;
//   * after the lookup: a list that also covers a node that ANSWERED during the lookup (it sits in the routing
//     table); every covered address sends a ping (no reply, no table entry, no OnQuery call), is pinged (no
//     datagram), and a second lookup (Bootstrap, seeded from the routing table this time) runs against the same
//     network.
//
// Model-compared: the cases are ordinary lkbegin .. lkend cases (issues, replies, announce_peer / put destinations,
// Peers, result), plus `lkbegun <idx> => <n>`: the number of DoQuery calls the traversal made (Announce.NumContacted /
// traversal.Stats.NumAddrsTried) against the model's TIssue count = the query datagrams that left (no write faults,
// no stop: every DoQuery of the correct code is one datagram).
// Oracles (C19): a datagram whose destination is covered by a list whose installation had RETURNED when it was written;
// more DoQuery calls / Server.Query calls than datagrams (a query to a blocked address is begun, counted and refused
// at the socket); a ping from a covered address that is answered, gets a table entry or reaches OnQuery.

import (
	"bytes"
	"context"
	"crypto/ed25519"
	"crypto/sha1"
	"fmt"
	"net"
	"runtime"
	"sort"
	"strings"
	"sync"
	"sync/atomic"
	"time"

	"github.com/anacrolix/log"
	"github.com/anacrolix/torrent/bencode"
	"github.com/anacrolix/torrent/iplist"
	"golang.org/x/time/rate"

	dht "github.com/anacrolix/dht/v2"
	"github.com/anacrolix/dht/v2/bep44"
	"github.com/anacrolix/dht/v2/exts/getput"
	"github.com/anacrolix/dht/v2/krpc"
	"github.com/anacrolix/dht/v2/traversal"
)

type lkBlock struct {
	cfg   string // how the first list gets there: static (ServerConfig.IPBlocklist) | preset (SetIPBlockList before the lookup) | none
	late  string // "" | plain | park: a second, bigger list installed while the lookup runs
	shape string // single | range | mixed
	b1    []int  // covered from the start
	b2    []int  // covered by the list installed during the lookup
	deep  []int  // the nodes whose replies reveal b2 (withheld until that list is installed)
	race  int    // park: the candidate whose filter call straddles the installation, -1 = none
	endY  int    // a responder covered by a third list installed after the lookup, -1 = none
}

func (b *lkBlock) variant() string {
	v := b.cfg
	if b.late != "" {
		v += "+" + b.late
	}
	return v
}

func (b *lkBlock) String() string {
	return fmt.Sprintf("blocklist=%s late=%s shape=%s b1=%v b2=%v deep=%v race=%d end-blocked-responder=%d", b.cfg, b.late, b.shape, b.b1, b.b2, b.deep, b.race, b.endY)
}

// ---------------------------------------------------------------- lists

// lkFilterHold blocks no address.  Once armed it parks ONE Lookup: the first one for the armed IP that
// Server.TraversalNodeFilter makes (recognised by its frame on the stack; that call holds no server lock, so
// SetIPBlockList can run meanwhile - the serve loop and writeToNode consult the list under the server's lock and are
// never held).
type lkFilterHold struct {
	mu      sync.Mutex
	ip      net.IP
	done    bool
	reached chan struct{}
	release chan struct{}
}

func newFilterHold() *lkFilterHold {
	return &lkFilterHold{reached: make(chan struct{}), release: make(chan struct{})}
}

func (h *lkFilterHold) arm(ip net.IP) {
	h.mu.Lock()
	h.ip = ip
	h.mu.Unlock()
}

func calledFromNodeFilter() bool {
	var pcs [64]uintptr
	n := runtime.Callers(2, pcs[:])
	frames := runtime.CallersFrames(pcs[:n])
	filter, write := false, false
	for {
		f, more := frames.Next()
		if strings.HasSuffix(f.Function, ".TraversalNodeFilter") || strings.Contains(f.Function, ".TraversalNodeFilter-") {
			filter = true
		}
		if strings.Contains(f.Function, "writeToNode") || strings.HasSuffix(f.Function, ".serve") {
			write = true
		}
		if !more {
			return filter && !write
		}
	}
}

func (h *lkFilterHold) Lookup(ip net.IP) {
	h.mu.Lock()
	hit := !h.done && h.ip != nil && h.ip.Equal(ip)
	h.mu.Unlock()
	if hit && calledFromNodeFilter() {
		h.mu.Lock()
		first := !h.done
		h.done = true
		h.mu.Unlock()
		if first {
			close(h.reached)
			select {
			case <-h.release:
			case <-time.After(20 * time.Second): // never wedge the child for good
			}
		}
	}
}

// lkBlockRanger is the list handed to the server in the park cases: the hold (which blocks nothing) in front of a
// real iplist.
type lkBlockRanger struct {
	inner iplist.Ranger // may be nil
	hold  *lkFilterHold
}

func (w *lkBlockRanger) Lookup(ip net.IP) (iplist.Range, bool) {
	if w.hold != nil {
		w.hold.Lookup(ip)
	}
	if w.inner == nil {
		return iplist.Range{}, false
	}
	return w.inner.Lookup(ip)
}

func (w *lkBlockRanger) NumRanges() int {
	if w.inner == nil {
		return 0
	}
	return w.inner.NumRanges()
}

// lkBlockList builds a sorted iplist covering the addresses of the given nodes: one range per address (style 0) or
// one range for the /24 (IPv4) or /112 (IPv6) the address lies in (style 1); mixed = per group.  Blocked nodes live
// in networks of their own (lkBlockAddr), so a group range covers nothing else.
func lkBlockList(shape string, salt int, nodes []*lkNode) *iplist.IPList {
	seen := map[string]bool{}
	var rs []iplist.Range
	for _, n := range nodes {
		var ip net.IP
		if v4 := n.addr.IP.To4(); v4 != nil {
			ip = append(net.IP(nil), v4...)
		} else {
			ip = append(net.IP(nil), n.addr.IP.To16()...)
		}
		first, last := append(net.IP(nil), ip...), append(net.IP(nil), ip...)
		style := 0
		switch shape {
		case "range":
			style = 1
		case "mixed":
			style = (int(ip[len(ip)-2]) + salt) % 2
		}
		if v4 := n.addr.IP.To4(); v4 != nil && v4[1] == 20 {
			style = 0 // a node of the ordinary network (the responder blocked at the end): its address alone
		}
		if style == 1 {
			if len(ip) == 4 {
				first[3], last[3] = 0, 255
			} else {
				first[14], first[15], last[14], last[15] = 0, 0, 255, 255
			}
		}
		k := string(first) + "-" + string(last)
		if seen[k] {
			continue
		}
		seen[k] = true
		rs = append(rs, iplist.Range{First: first, Last: last, Description: fmt.Sprintf("verif-%d", len(rs))})
	}
	sort.Slice(rs, func(i, j int) bool { return bytes.Compare(rs[i].First, rs[j].First) < 0 })
	return iplist.New(rs)
}

// group 1 = covered from the start, 2 = covered by the late list, 3 = the raced candidate
func lkBlockAddr(group, j int, form string) *net.UDPAddr {
	port := 3000 + 100*group + j
	switch form {
	case "v6":
		return &net.UDPAddr{IP: net.ParseIP(fmt.Sprintf("2001:db8:b%d::%x", group, 0x10+j)), Port: port}
	case "mapped":
		return &net.UDPAddr{IP: net.IPv4(10, 66, byte(group), byte(10+j)).To16(), Port: port}
	}
	return &net.UDPAddr{IP: net.IPv4(10, 66, byte(group), byte(10+j)).To4(), Port: port}
}

// ---------------------------------------------------------------- running state

type lkBlockWrite struct {
	dest *net.UDPAddr
	y, q string
}

type lkBlockState struct {
	st      *lkState
	mode    int32        // 0 the lookup, 1 probes after it, 2 the second lookup
	inForce atomic.Value // *lkInForce: the list whose installation has returned
	mu      sync.Mutex
	viol    []string       // datagrams to covered destinations, "phase:kind:addr"
	postW   []lkBlockWrite // everything written in mode 1
	q2      chan *lkQuery  // queries of the second lookup
	hooks   []string       // OnQuery sources
}

type lkInForce struct{ list iplist.Ranger }

func (bs *lkBlockState) covered(ip net.IP) bool {
	f, _ := bs.inForce.Load().(*lkInForce)
	if f == nil || f.list == nil {
		return false
	}
	_, ok := f.list.Lookup(ip)
	return ok
}

func (bs *lkBlockState) setInForce(l iplist.Ranger) { bs.inForce.Store(&lkInForce{l}) }

// onWrite replaces lkState.onWrite for these cases (same pairing with the resend-delay gate).  A datagram to a
// destination covered by the list in force is recorded; as a query it is one to a node that never answers.
func (bs *lkBlockState) onWrite(b []byte, addr *net.UDPAddr) {
	st := bs.st
	cov := bs.covered(addr.IP)
	mode := atomic.LoadInt32(&bs.mode)
	m, ok := decodeLikeServer(b)
	kind := "undecodable"
	if ok {
		kind = m.Y
		if m.Y == "q" {
			kind = m.Q
		}
	}
	if cov {
		bs.mu.Lock()
		bs.viol = append(bs.viol, fmt.Sprintf("%s:%s:%s", []string{"lookup", "probe", "table-seeded-lookup"}[mode], kind, addrTok(addr)))
		bs.mu.Unlock()
	}
	if mode == 1 && ok {
		bs.mu.Lock()
		bs.postW = append(bs.postW, lkBlockWrite{addr, m.Y, m.Q})
		bs.mu.Unlock()
	}
	if !ok || m.Y != "q" {
		return
	}
	q := &lkQuery{n: -1, t: m.T, q: m.Q, dest: addr, msg: m, node: st.byAddr[addr.String()]}
	if cov || mode == 1 {
		q.node = nil // nobody answers: the query times out after 2 ms
	}
	if st.lockGate() {
		st.gateCur = st.delayFor(q)
		st.gatePh = 0
	}
	switch mode {
	case 0:
		st.queue <- q
	case 2:
		bs.q2 <- q
	}
}

func (bs *lkBlockState) violations(phase string) (v []string) {
	bs.mu.Lock()
	defer bs.mu.Unlock()
	for _, s := range bs.viol {
		if strings.HasPrefix(s, phase+":") {
			v = append(v, s)
		}
	}
	return
}

// ---------------------------------------------------------------- one run

func runLookupBlockOnce(c *lkCase, rep int, report bool) (*lkState, lkResult) {
	bk := c.block
	r := (&rng{s: c.sub}).sub(0)
	st := &lkState{c: c, rep: rep, conn: newFakeConn(), queue: make(chan *lkQuery, 8192), gateMu: make(chan struct{}, 1),
		byAddr: map[string]*lkNode{}, served: map[string]int{}, consDone: make(chan struct{})}
	for _, n := range c.nodes {
		st.byAddr[n.addr.String()] = n
	}
	bs := &lkBlockState{st: st, q2: make(chan *lkQuery, 8192)}
	st.conn.onWrite = bs.onWrite
	x := &lkRaceRun{c: c, st: st, report: report}
	tag := fmt.Sprintf("case=%d %s (%v) sub=%d replay: h -seed %d lookups -only %d", c.idx, c.name(), bk, c.sub, lkStopSeed, c.idx)
	note := func(format string, a ...interface{}) {
		if report {
			emit("# lkblock case=%d %s: %s", c.idx, c.name(), fmt.Sprintf(format, a...))
		}
	}
	pick := func(idx []int) (ns []*lkNode) {
		for _, i := range idx {
			ns = append(ns, c.nodes[i])
		}
		return
	}
	// the three lists: from the start, during the lookup, after it
	set1 := pick(bk.b1)
	set2 := append(append([]*lkNode(nil), set1...), pick(bk.b2)...)
	if bk.race >= 0 {
		set2 = append(set2, c.nodes[bk.race])
	}
	set3 := append([]*lkNode(nil), set2...)
	if bk.endY >= 0 {
		set3 = append(set3, c.nodes[bk.endY])
	}
	var pure1, pure2, pure3 iplist.Ranger
	if len(set1) > 0 {
		pure1 = lkBlockList(bk.shape, c.idx, set1)
	}
	pure2 = lkBlockList(bk.shape, c.idx, set2)
	pure3 = lkBlockList(bk.shape, c.idx, set3)
	// what the harness believes about the lists must be what the lists say (they are the trusted library's)
	for i, n := range c.nodes {
		in := func(s []*lkNode) bool {
			for _, o := range s {
				if o == n {
					return true
				}
			}
			return false
		}
		for li, l := range []iplist.Ranger{pure1, pure2, pure3} {
			got := false
			if l != nil {
				_, got = l.Lookup(n.addr.IP)
			}
			if want := in([][]*lkNode{set1, set2, set3}[li]); got != want {
				oracle("C14", "harness-blocklist-construction", "list %d says %v about node %d (%v), the case wants %v: %s", li+1, got, i, n.addr, want, tag)
			}
		}
	}
	hold := newFilterHold()
	released := false
	releaseHold := func() {
		if !released {
			released = true
			close(hold.release)
		}
	}
	defer releaseHold()
	asConfigured := func(l iplist.Ranger) iplist.Ranger {
		if bk.late == "park" {
			return &lkBlockRanger{inner: l, hold: hold}
		}
		return l
	}
	cfg := &dht.ServerConfig{
		Conn:             st.conn,
		NoSecurity:       true,
		QueryResendDelay: st.resendDelay,
		Logger:           log.NewLogger().FilterLevel(log.Critical),
		SendLimiter:      rate.NewLimiter(rate.Inf, 1),
		Store:            bep44.NewMemory(),
		Exp:              2 * time.Hour,
		StartingNodes: func() ([]dht.Addr, error) {
			var as []dht.Addr
			for _, i := range c.start {
				as = append(as, dht.NewAddr(c.nodes[i].addr))
			}
			return as, nil
		},
		OnQuery: func(q *krpc.Msg, source net.Addr) bool {
			bs.mu.Lock()
			bs.hooks = append(bs.hooks, source.String())
			bs.mu.Unlock()
			return true
		},
	}
	switch bk.cfg {
	case "static":
		if l := asConfigured(pure1); l != nil {
			cfg.IPBlocklist = l
		}
		bs.setInForce(pure1)
	case "none":
		if bk.late == "park" {
			cfg.IPBlocklist = asConfigured(nil) // a list that blocks nothing
		}
	}
	cfg.NodeId[0], cfg.NodeId[19] = 0x42, 0x24
	s, err := dht.NewServer(cfg)
	if err != nil {
		panic(err)
	}
	st.s = s
	for atomic.LoadInt64(&st.conn.reads) == 0 {
		time.Sleep(20 * time.Microsecond)
	}
	if bk.cfg == "preset" {
		s.SetIPBlockList(asConfigured(pure1))
		bs.setInForce(pure1)
	}

	ctx, cancel := context.WithCancel(context.Background())
	defer cancel()
	var res lkResult
	apiDone := make(chan struct{})
	var a *dht.Announce
	var gpStats *traversal.Stats
	var bootStats dht.TraversalStats
	annReady := make(chan struct{})
	switch c.api {
	case "bootstrap":
		go func() {
			ts, err := s.BootstrapContext(ctx)
			bootStats, res.err = ts, err
			close(apiDone)
		}()
	case "announce":
		go func() {
			var opts []dht.AnnounceOpt
			if c.scrape {
				opts = append(opts, dht.Scrape())
			}
			var err error
			if c.viaTrav {
				if c.annOpts {
					opts = append(opts, dht.AnnouncePeer(dht.AnnouncePeerOpts{Port: c.annPort, ImpliedPort: c.annImp}))
				}
				a, err = s.AnnounceTraversal(c.target, opts...)
			} else {
				port, imp := 0, false
				if c.annOpts {
					port, imp = c.annPort, c.annImp
				}
				a, err = s.Announce(c.target, port, imp, opts...)
			}
			res.err = err
			close(annReady)
			if err != nil {
				close(apiDone)
				close(st.consDone)
				return
			}
			go func() { // the consumer
				defer close(st.consDone)
				for pv := range a.Peers {
					st.mu.Lock()
					st.peers = append(st.peers, fmt.Sprintf("%s:%d|%s|%s", ipHex(pv.NodeInfo.Addr.IP), pv.NodeInfo.Addr.Port, hx(pv.NodeInfo.ID[:]), dumpReturn(&pv.Return)))
					st.mu.Unlock()
					atomic.AddInt64(&st.nDeliv, 1)
				}
			}()
			<-a.Finished()
			close(apiDone)
		}()
	case "get":
		go func() {
			var saltArg []byte
			if c.mutable {
				saltArg = c.salt
			}
			ret, stats, err := getput.Get(ctx, c.target, s, c.seqArg, saltArg)
			res.getRet, res.err = ret, err
			gpStats = stats
			close(apiDone)
		}()
	case "put":
		go func() {
			stats, err := getput.Put(ctx, c.target, s, c.salt, func(seq int64) bep44.Put {
				atomic.StoreInt64(&res.autoSeq, seq)
				p := bep44.Put{V: c.putValue, Salt: c.salt, Seq: seq}
				if c.mutable {
					var k [32]byte
					copy(k[:], c.pub)
					p.K = &k
					p.Sign(c.priv)
				}
				return p
			})
			res.err = err
			gpStats = stats
			close(apiDone)
		}()
	}
	isDone := func() bool {
		select {
		case <-apiDone:
			return true
		default:
			return false
		}
	}
	if c.api == "announce" {
		<-annReady
	}
	settle := func() {
		for i := 0; i < 20; i++ {
			runtime.Gosched()
		}
		time.Sleep(150 * time.Microsecond)
	}
	// waitEffect: the reply's response on Peers (announce), its transaction gone
	waitEffect := func(q *lkQuery, hasR bool, before int64, tx int) {
		if c.api == "announce" && hasR {
			dl := time.Now().Add(2 * time.Second)
			for atomic.LoadInt64(&st.nDeliv) == before && time.Now().Before(dl) {
				time.Sleep(20 * time.Microsecond)
			}
			if atomic.LoadInt64(&st.nDeliv) == before {
				oracle("C16", "response-not-delivered", "get_peers response of %v not on Peers within 2s case=%d %s sub=%d", q.dest, c.idx, c.name(), c.sub)
			}
		}
		x.waitTx(tx-1, 2*time.Millisecond)
		settle()
	}
	replyAndWait := func(q *lkQuery) {
		before := atomic.LoadInt64(&st.nDeliv)
		tx := s.Stats().OutstandingTransactions
		hasR := x.reply(q)
		waitEffect(q, hasR, before, tx)
	}
	isDeep := func(n *lkNode) bool {
		for _, i := range bk.deep {
			if c.nodes[i] == n {
				return true
			}
		}
		return false
	}

	// ---------------- the lookup ----------------
	installed := bk.late == ""
	allowed := int64(0) // DoQuery calls that may legitimately have no datagram: filter verdicts that overlapped the installation
	parked := false
	deferred := false // the list that should have come during the lookup comes after it
	if !x.waitIssues(1, 3*time.Second) {
		note("no query left within 3s")
	}
	deadline := time.Now().Add(8 * time.Second)
	for {
		x.drain()
		if len(x.pending) > 0 {
			i := r.intn(len(x.pending))
			q := x.pending[i]
			x.pending = append(x.pending[:i], x.pending[i+1:]...)
			if !installed && isDeep(q.node) {
				// no reply of a deep node has been served: the server has never heard of the addresses the new list adds
				installed = true
				if bk.late == "park" && bk.race >= 0 {
					hold.arm(c.nodes[bk.race].addr.IP)
					before := atomic.LoadInt64(&st.nDeliv)
					tx := s.Stats().OutstandingTransactions
					hasR := x.reply(q)
					select {
					case <-hold.reached:
						parked = true
					case <-time.After(time.Second):
						// (the candidates of this reply may be in the frontier or asked by now: installing the list at this
						// point would be a race of the harness's making; it is installed after the lookup instead)
						note("the node filter was not seen asking the list about the raced candidate %v", c.nodes[bk.race].addr)
						deferred = true
						releaseHold()
						waitEffect(q, hasR, before, tx)
						continue
					}
					time.Sleep(time.Duration(100+r.intn(500)) * time.Microsecond)
					setDone := make(chan struct{})
					go func() {
						s.SetIPBlockList(&lkBlockRanger{inner: pure2})
						close(setDone)
					}()
					select {
					case <-setDone:
					case <-time.After(2 * time.Second):
						note("SetIPBlockList did not return while the filter call was parked")
						releaseHold()
						select {
						case <-setDone:
						case <-time.After(20 * time.Second):
						}
					}
					bs.setInForce(pure2)
					if parked {
						// candidates of this reply that the new list adds: their verdicts may be the old list's
						for _, li := range q.node.lists {
							if _, ok := pure2.Lookup(c.nodes[li].addr.IP); ok {
								if pure1 == nil {
									allowed++
								} else if _, was := pure1.Lookup(c.nodes[li].addr.IP); !was {
									allowed++
								}
							}
						}
					}
					time.Sleep(time.Duration(100+r.intn(500)) * time.Microsecond)
					releaseHold()
					waitEffect(q, hasR, before, tx)
					continue
				}
				s.SetIPBlockList(pure2)
				bs.setInForce(pure2)
			}
			replyAndWait(q)
			continue
		}
		if isDone() && len(st.queue) == 0 {
			break
		}
		if time.Now().After(deadline) {
			res.stuck = true
			prop, key := "C14", "lookup-did-not-return:"+c.api
			if c.api == "announce" {
				prop, key = "C16", "peers-not-closed"
			}
			oracle(prop, key, "no end within 8s %s", tag)
			break
		}
		select {
		case q := <-st.queue:
			st.queue <- q
		case <-apiDone:
		case <-time.After(200 * time.Microsecond):
		}
	}
	releaseHold()
	x.drain()

	// ---------------- results (as in runLookupOnce) ----------------
	switch c.api {
	case "bootstrap":
		res.res = lkErrClass(res.err, "ok")
	case "announce":
		if res.err != nil {
			res.res = "start"
		} else {
			res.res = "ok"
			if res.stuck {
				go func() {
					for range a.Peers {
					}
				}()
				select {
				case <-a.Finished():
				case <-time.After(2 * time.Second):
				}
			}
			select {
			case <-st.consDone:
				res.closed = true
			case <-time.After(2 * time.Second):
			}
			if res.stuck {
				res.closed = false
			}
			if !res.closed && !res.stuck {
				oracle("C16", "peers-not-closed", "Finished() but Peers still open case=%d %s sub=%d", c.idx, c.name(), c.sub)
			}
		}
	case "get":
		if res.err != nil {
			res.res = lkErrClass(res.err, "")
		} else {
			sq := "-"
			if res.getRet.Mutable {
				sq = fmt.Sprint(res.getRet.Seq)
			}
			res.res = fmt.Sprintf("val:%s:%s:%d", sq, hx(res.getRet.V), b2i(res.getRet.Mutable))
		}
	case "put":
		as := atomic.LoadInt64(&res.autoSeq)
		if res.err != nil {
			cl := lkErrClass(res.err, "")
			if cl == "ctx" {
				res.res = fmt.Sprintf("ctx:%d", as)
			} else {
				res.res = cl
			}
		} else {
			res.res = fmt.Sprintf("ok:%d", as)
		}
	}
	if report {
		st.oracles(&res)
	}
	dl := time.Now().Add(2 * time.Second)
	for s.Stats().OutstandingTransactions != 0 && time.Now().Before(dl) {
		time.Sleep(100 * time.Microsecond)
	}
	if n := s.Stats().OutstandingTransactions; n != 0 {
		oracle("C14", "transaction-leak", "outstanding=%d after %s ended %s", n, c.api, tag)
	}

	// ---------------- C19: what the lookup did with the blocked addresses it was told about ----------------
	if isDone() && !res.stuck {
		var begun int64 = -1
		switch {
		case a != nil:
			begun = int64(a.NumContacted())
		case gpStats != nil:
			begun = int64(atomic.LoadUint32(&gpStats.NumAddrsTried))
		case c.api == "bootstrap" && res.err == nil:
			begun = int64(bootStats.NumAddrsTried)
		}
		attempted := s.Stats().OutboundQueriesAttempted
		wrote := int64(x.nIssued)
		wroteAll := wrote + int64(len(st.sends))
		if v := bs.violations("lookup"); len(v) > 0 {
			oracle("C19", "datagram-to-blocked-address:lookup:"+c.api+":"+bk.variant(), "%d datagram(s) to addresses covered by the blocklist in force: [%s] %s", len(v), strings.Join(v, " "), tag)
		}
		if begun >= 0 && begun-wrote > allowed {
			oracle("C19", "lookup-queried-blocked-address:"+c.api+":"+bk.variant(),
				"the traversal began %d queries (DoQuery calls: NumContacted / NumAddrsTried), %d query datagrams left; nothing fails to be written here but a query to a blocked address; tolerated for verdicts overlapping the installation: %d; %s",
				begun, wrote, allowed, tag)
		}
		if attempted-wroteAll > allowed {
			oracle("C19", "server-query-to-blocked-address:"+c.api+":"+bk.variant(),
				"Stats().OutboundQueriesAttempted=%d, %d query datagrams left (%d of the traversal, %d announce_peer / put); tolerated: %d; %s",
				attempted, wroteAll, wrote, len(st.sends), allowed, tag)
		}
		if begun >= 0 && begun < wrote {
			note("more query datagrams (%d) than DoQuery calls (%d)", wrote, begun)
		}
		if report && begun >= 0 && allowed == 0 {
			emit("lkbegun %d => %d", c.idx, begun) // model: the TIssue steps of the trace = the query datagrams
		}
		if report {
			emit("# lkblock case=%d %s begun=%d attempted=%d datagrams=%d+%d parked=%d tolerated=%d installed-during-lookup=%d", c.idx, bk.variant(), begun, attempted, wrote, len(st.sends), b2i(parked), allowed, b2i(installed && !deferred && bk.late != ""))
		}
	}

	// ---------------- after the lookup ----------------
	if !res.stuck && isDone() {
		bs.afterLookup(c, bk, installed && !deferred, pure2, pure3, tag, note)
	}
	cancel()
	s.Close()
	return st, res
}

// afterLookup: everything is quiet (no transaction, the lookup's goroutines are done or finishing without touching
// the network).  Every covered address is probed in both directions under the list the lookup ended with; then a
// last list adds a node that ANSWERED during the lookup, more probes; finally a Bootstrap seeded from the routing
// table runs against the same network.
func (bs *lkBlockState) afterLookup(c *lkCase, bk *lkBlock, installed bool, pure2, pure3 iplist.Ranger, tag string, note func(string, ...interface{})) {
	st := bs.st
	s := st.s
	settleQuiet := func() {
		time.Sleep(300 * time.Microsecond)
		lkStableGoroutines()
	}
	settleQuiet()
	atomic.StoreInt32(&bs.mode, 1)
	if !installed {
		// the lookup ended without asking a deep node: the second list comes now
		s.SetIPBlockList(pure2)
		bs.setInForce(pure2)
	}
	ctrl := &net.UDPAddr{IP: net.IPv4(10, 99, 0, 1).To4(), Port: 4999}
	ping := func(id [20]byte, t string) []byte {
		b, err := bencode.Marshal(krpc.Msg{Q: "ping", T: t, Y: "q", A: &krpc.MsgArgs{ID: id}})
		if err != nil {
			panic(err)
		}
		return b
	}
	ctrlReplies := func() (k int) {
		bs.mu.Lock()
		defer bs.mu.Unlock()
		for _, w := range bs.postW {
			if w.dest.IP.Equal(ctrl.IP) && w.y == "r" {
				k++
			}
		}
		return
	}
	writesTo := func(n *lkNode, y string) (k int, what []string) {
		bs.mu.Lock()
		defer bs.mu.Unlock()
		for _, w := range bs.postW {
			if w.dest.IP.Equal(n.addr.IP) && (y == "" || w.y == y) {
				k++
				what = append(what, "datagram:"+w.y+w.q)
			}
		}
		return
	}
	how := func(n *lkNode) string {
		switch {
		case bk.race >= 0 && n == c.nodes[bk.race]:
			return "list-replaced-during-its-filter-call"
		case bk.endY >= 0 && n == c.nodes[bk.endY]:
			return "blocked-after-it-answered"
		}
		return "listed-only"
	}
	probe := func(round string, probes []*lkNode) {
		if len(probes) == 0 {
			return
		}
		// ---- inbound: a ping from every covered address, then one from an address nobody blocks ----
		hooks0 := 0
		bs.mu.Lock()
		hooks0 = len(bs.hooks)
		bs.mu.Unlock()
		w0 := map[*lkNode]int{}
		for i, n := range probes {
			w0[n], _ = writesTo(n, "")
			if !st.conn.inject(ping(n.id, fmt.Sprintf("b%d", i)), n.addr, 2*time.Second) {
				oracle("C01", "serve-loop-stuck", "ping of a blocked source not taken %s", tag)
			}
		}
		var cid [20]byte
		cid[0], cid[19] = 0xc7, 0x01
		c0 := ctrlReplies()
		st.conn.inject(ping(cid, "ok"), ctrl, 2*time.Second)
		// datagrams are handled in order: once the control ping has been answered the probes have been dealt with
		dl := time.Now().Add(2 * time.Second)
		for ctrlReplies() == c0 && time.Now().Before(dl) {
			time.Sleep(50 * time.Microsecond)
		}
		if ctrlReplies() == c0 {
			note("the control ping from %v was not answered within 2s", ctrl)
		}
		settleQuiet()
		tbl, _ := s.VerifTableSnapshot()
		bs.mu.Lock()
		hooks := append([]string(nil), bs.hooks[hooks0:]...)
		bs.mu.Unlock()
		for _, n := range probes {
			var eff []string
			if k, what := writesTo(n, ""); k > w0[n] {
				eff = append(eff, what[w0[n]:]...)
			}
			if st.served[n.addr.String()] == 0 { // (a node that answered before it was blocked has its entry from then)
				for _, e := range tbl {
					if net.IP(e.IP).Equal(n.addr.IP) {
						eff = append(eff, "table-entry")
					}
				}
			}
			for _, h := range hooks {
				if h == n.addr.String() {
					eff = append(eff, "OnQuery")
				}
			}
			if len(eff) > 0 {
				oracle("C19", "blocked-source-had-effect:after-lookup:"+how(n), "%s: a ping from %v, covered by the list in force since SetIPBlockList returned, had effects [%s] %s", round, n.addr, strings.Join(eff, " "), tag)
			}
		}
		// ---- outbound ----
		for _, n := range probes {
			k0, _ := writesTo(n, "q")
			qctx, qcancel := context.WithTimeout(context.Background(), time.Second)
			res := s.Query(qctx, dht.NewAddr(n.addr), "ping", dht.QueryInput{})
			qcancel()
			if k, _ := writesTo(n, "q"); k > k0 || res.Err == nil {
				oracle("C19", "query-to-blocked-address-sent:after-lookup:"+how(n), "%s: Server.Query(ping) to %v: %d datagram(s), err=%v %s", round, n.addr, k-k0, res.Err, tag)
			}
		}
		settleQuiet()
	}
	var probes []*lkNode
	add := func(i int) {
		if i >= 0 && len(probes) < 4 {
			probes = append(probes, c.nodes[i])
		}
	}
	add(bk.race)
	for k := 0; k < 2; k++ {
		if k < len(bk.b2) {
			add(bk.b2[k])
		}
		if k < len(bk.b1) {
			add(bk.b1[k])
		}
	}
	probe("list the lookup ended with", probes)
	if bk.endY >= 0 {
		s.SetIPBlockList(pure3)
		bs.setInForce(pure3)
		probes = probes[:0]
		add(bk.endY)
		add(bk.race)
		if len(bk.b1) > 0 {
			add(bk.b1[len(bk.b1)-1])
		}
		probe("list that adds a node of the routing table", probes)
	}

	// ---- the second lookup: Bootstrap, seeded from the routing table (or the starting nodes when it is empty) ----
	atomic.StoreInt32(&bs.mode, 2)
	att0 := s.Stats().OutboundQueriesAttempted
	done2 := make(chan struct{})
	var ts dht.TraversalStats
	var err2 error
	go func() {
		ts, err2 = s.BootstrapContext(context.Background())
		close(done2)
	}()
	n2 := 0
	serve := func(q *lkQuery) {
		n2++
		if b := st.replyFor(q); b != nil {
			st.conn.inject(b, q.dest, 2*time.Second)
		}
	}
	stuck := false
	dl := time.Now().Add(6 * time.Second)
loop:
	for {
		select {
		case q := <-bs.q2:
			serve(q)
		case <-done2:
			break loop
		case <-time.After(50 * time.Millisecond):
			if time.Now().After(dl) {
				stuck = true
				break loop
			}
		}
	}
	for len(bs.q2) > 0 {
		serve(<-bs.q2)
	}
	if stuck {
		note("the table-seeded Bootstrap did not return within 6s")
		return
	}
	if v := bs.violations("table-seeded-lookup"); len(v) > 0 {
		oracle("C19", "datagram-to-blocked-address:lookup:bootstrap-from-table", "%d datagram(s) to addresses covered by the blocklist in force: [%s] %s", len(v), strings.Join(v, " "), tag)
	}
	if err2 == nil {
		att := s.Stats().OutboundQueriesAttempted - att0
		if int(ts.NumAddrsTried) > n2 || int(att) > n2 {
			oracle("C19", "lookup-queried-blocked-address:bootstrap-from-table",
				"the Bootstrap after the lookup began %d queries (NumAddrsTried; OutboundQueriesAttempted +%d), %d find_node datagrams left: a query to a blocked address was begun and refused at the socket; %s",
				ts.NumAddrsTried, att, n2, tag)
		}
		note("second lookup: tried=%d attempted=%d datagrams=%d responses=%d", ts.NumAddrsTried, att, n2, ts.NumResponses)
	} else {
		note("second lookup: %v", err2)
	}
}

// ---------------------------------------------------------------- cases

func lookupBlockCases(seed uint64, tier string, base int) []lkCase {
	lkStopSeed = seed
	var cs []lkCase
	root := &rng{s: seed ^ 0xb10c}
	mul := 1
	if tier == "thorough" {
		mul = 8
	}
	type annOpt struct {
		opts    bool
		port    int
		imp     bool
		scrape  bool
		viaTrav bool
		name    string
	}
	type apiSpec struct {
		api string
		ann annOpt
	}
	apis := []apiSpec{
		{"bootstrap", annOpt{}},
		{"announce", annOpt{true, 6881, false, false, false, "port"}},
		{"announce", annOpt{true, 0, true, false, true, "traversal-api-implied"}},
		{"get", annOpt{}},
		{"put", annOpt{}},
		{"announce", annOpt{false, 0, false, true, true, "traversal-api-scrape-only"}},
	}
	type variant struct{ cfg, late string }
	variants := []variant{{"static", ""}, {"preset", ""}, {"static", "plain"}, {"none", "plain"}, {"static", "park"}, {"none", "park"}, {"preset", "plain"}, {"preset", "park"}}
	shapes := []string{"single", "range", "mixed"}
	forms := []string{"", "v6", "mapped"}
	v := 0
	for round := 0; round < mul; round++ {
		for ai, ap := range apis {
			if round == 0 && ai >= 5 {
				continue
			}
			for vi, vr := range variants {
				if round == 0 && vi >= 6 {
					continue
				}
				v++
				r := root.sub(1000*round + 10*ai + vi)
				var target [20]byte
				var pub ed25519.PublicKey
				var priv ed25519.PrivateKey
				var salt []byte
				switch ap.api {
				case "bootstrap":
					target[0], target[19] = 0x42, 0x24
				case "get", "put":
					pub, priv, _ = ed25519.GenerateKey(bytes.NewReader(r.bytes(64)))
					salt = [][]byte{nil, []byte("s")}[v%2]
					target = sha1.Sum(append(append([]byte(nil), pub...), salt...))
				default:
					copy(target[:], r.bytes(20))
				}
				g := 4 + r.intn(5)
				nd := 0
				if vr.late != "" {
					nd = 1 + r.intn(2)
				}
				nb1 := 1 + r.intn(3)
				if vr.cfg == "none" {
					nb1 = 0
				}
				nb2 := 0
				if vr.late != "" {
					nb2 = 1 + r.intn(3)
				}
				bk := &lkBlock{cfg: vr.cfg, late: vr.late, shape: shapes[(v+round)%len(shapes)], race: -1, endY: -1}
				var nodes []*lkNode
				mk := func(addr *net.UDPAddr, prefix int, form string) int {
					n := &lkNode{addr: addr, kind: "r", form: form}
					copy(n.id[:], r.bytes(20))
					copy(n.id[:prefix], target[:prefix])
					if prefix < 20 {
						n.id[prefix] = target[prefix] ^ byte(1+r.intn(255)) // exactly this many bytes in common
					}
					tok := fmt.Sprintf("tok-%d-%x", len(nodes), r.bytes(2))
					n.token = &tok
					nodes = append(nodes, n)
					return len(nodes) - 1
				}
				for i := 0; i < g; i++ {
					p := r.intn(3)
					if i >= g-nd {
						p = 3
					}
					mk(lkNodeAddr(i), p, "")
					if i >= g-nd {
						bk.deep = append(bk.deep, i)
					}
				}
				for j := 0; j < nb1; j++ {
					f := forms[(j+v)%3]
					bk.b1 = append(bk.b1, mk(lkBlockAddr(1, j, f), 8+r.intn(4), f))
				}
				// park: the raced candidate is the FIRST entry of the list it travels in, and when that is nodes6 nothing the
				// late list covers travels in nodes (which the traversal takes first, in a locked section of its own)
				raceForm := forms[(v/2)%2]
				for j := 0; j < nb2; j++ {
					f := forms[(j+v+1)%3]
					if vr.late == "park" && raceForm != "" && f == "" {
						f = "mapped"
					}
					bk.b2 = append(bk.b2, mk(lkBlockAddr(2, j, f), 8+r.intn(4), f))
				}
				if vr.late == "park" {
					bk.race = mk(lkBlockAddr(3, 0, raceForm), 12, raceForm)
				}
				// who tells about whom
				shallow := g - nd
				for i := 0; i < g; i++ {
					n := nodes[i]
					if i >= shallow {
						// deep: the raced candidate first, the late-covered nodes, some of the early-covered, a node already asked
						if bk.race >= 0 {
							n.lists = append(n.lists, bk.race)
						}
						n.lists = append(n.lists, bk.b2...)
						for _, b := range bk.b1 {
							if r.intn(2) == 0 {
								n.lists = append(n.lists, b)
							}
						}
						n.lists = append(n.lists, 0)
						if i+1 < g {
							n.lists = append(n.lists, i+1)
						}
						continue
					}
					for _, b := range bk.b1 {
						if i == 0 || r.intn(2) == 0 {
							n.lists = append(n.lists, b)
						}
					}
					for k := 0; k < 1+r.intn(2); k++ {
						if o := r.intn(g); o != i {
							n.lists = append(n.lists, o)
						}
					}
					if i+1 < g {
						n.lists = append(n.lists, i+1) // a chain through all acceptable nodes
					}
					if r.intn(3) == 0 {
						n.ghosts = 1
					}
				}
				start := []int{0}
				if shallow > 2 && r.intn(2) == 0 {
					start = append(start, 1)
				}
				if len(bk.b1) > 0 && v%2 == 0 {
					start = append(start, bk.b1[0]) // a blocked starting node as well
				}
				if g > 2 && v%3 != 0 {
					bk.endY = 1 + r.intn(shallow-1)
				}
				c := lkCase{api: ap.api, sn: "ok", target: target, nodes: nodes, start: start, stopAt: -1, consStop: -1, block: bk, reps: 1,
					salt: salt, pub: pub, priv: priv, mutable: pub != nil, putValue: "mine"}
				name := ""
				if ap.api == "announce" {
					o := ap.ann
					c.annOpts, c.annPort, c.annImp, c.scrape, c.viaTrav = o.opts, o.port, o.imp, o.scrape, o.viaTrav
					name = "-" + o.name
				}
				if pub != nil {
					for i := 0; i < g; i++ {
						if r.intn(2) == 0 {
							sq := int64(1 + r.intn(9))
							nodes[i].item, nodes[i].genuine, nodes[i].flavour = lkMkItem(pub, priv, salt, sq, fmt.Sprintf("v%d", sq)), true, "genuine"
						}
					}
				}
				c.desc = fmt.Sprintf("blocked-addresses-in-replies-%s-%s-good%d-b1.%d-b2.%d%s", bk.variant(), bk.shape, g, nb1, nb2, name)
				c.idx = base + len(cs)
				c.sub = root.sub(c.idx).next() | 1
				cs = append(cs, c)
			}
		}
	}
	return cs
}
