// Command h is the correspondence harness: it drives /repo's real code through generated
// inputs and prints, one per line, `op args => observed result` (and `oracle ...` lines for
// direct property violations). The model runner recomputes every result from the inputs.
package main

import (
	"bufio"
	"bytes"
	"os/exec"
	"runtime"
	"sync/atomic"
	"time"
	"regexp"
	"strconv"
	"encoding/hex"
	"flag"
	"fmt"
	"os"
	"strings"
)

type rng struct{ s uint64 }

func (r *rng) next() uint64 {
	r.s += 0x9e3779b97f4a7c15
	z := r.s
	z = (z ^ (z >> 30)) * 0xbf58476d1ce4e5b9
	z = (z ^ (z >> 27)) * 0x94d049bb133111eb
	return z ^ (z >> 31)
}
func (r *rng) intn(n int) int {
	if n <= 0 {
		return 0
	}
	return int(r.next() % uint64(n))
}
func (r *rng) bytes(n int) []byte {
	b := make([]byte, n)
	for i := range b {
		b[i] = byte(r.next())
	}
	return b
}
func (r *rng) bool() bool { return r.next()&1 == 1 }
func (r *rng) sub(i int) *rng {
	x := rng{s: r.s ^ (uint64(i)+1)*0xd1342543de82ef95}
	x.next()
	return &x
}

func hx(b []byte) string {
	if len(b) == 0 {
		return "-"
	}
	return hex.EncodeToString(b)
}

func unhx(s string) []byte {
	if s == "-" {
		return nil
	}
	b, err := hex.DecodeString(s)
	if err != nil {
		panic(err)
	}
	return b
}

var out *bufio.Writer

var emitCount int64

func emit(format string, a ...interface{}) {
	fmt.Fprintf(out, format, a...)
	out.WriteByte('\n')
	atomic.AddInt64(&emitCount, 1)
}

// The pure engines call library functions in a plain loop. A library function that does not return (a container
// looping on an inconsistent order, say) would leave the engine spinning until bin/check's time limit with the lines
// produced so far still in the buffer. The watchdog notices that no line has been produced for a while, says so,
// flushes what there is (the engine's goroutine is stuck inside the library, not writing) and ends the run.
var stallHome = map[string]string{"metric": "C18", "security": "C17", "codec": "C15"}

func stallWatchdog(engine string) {
	prop, ok := stallHome[engine]
	if !ok {
		return
	}
	go func() {
		last, since := int64(-1), time.Now()
		for {
			time.Sleep(2 * time.Second)
			n := atomic.LoadInt64(&emitCount)
			if n != last {
				last, since = n, time.Now()
				continue
			}
			if time.Since(since) > 60*time.Second {
				buf := make([]byte, 1<<16)
				st := string(buf[:runtime.Stack(buf, true)])
				where := "?"
				for _, l := range strings.Split(st, "\n") {
					if strings.Contains(l, "github.com/anacrolix/dht/v2") && !strings.Contains(l, "verifharness") {
						where = strings.TrimSpace(l)
						break
					}
				}
				fmt.Fprintf(out, "oracle %s library-call-does-not-return:%s no line for 60s after line %d; innermost library frame: %s\n", prop, engine, n, where)
				out.Flush()
				os.Exit(0)
			}
		}
	}()
}

func b2i(b bool) int {
	if b {
		return 1
	}
	return 0
}

type engine func(seed uint64, tier string, args []string)

var engines = map[string]engine{}

func main() {
	seed := flag.Uint64("seed", 1, "PRNG seed")
	tier := flag.String("tier", "quick", "quick|thorough")
	flag.String("prop", "", "property id the run serves")
	flag.String("replay", "", "replay file")
	outPath := flag.String("out", "", "output file (default stdout)")
	flag.Parse()
	if flag.NArg() < 1 {
		fmt.Fprintln(os.Stderr, "usage: h [-seed n] [-tier t] [-out f] engine [args]")
		os.Exit(2)
	}
	w := os.Stdout
	if *outPath != "" {
		f, err := os.Create(*outPath)
		if err != nil {
			fmt.Fprintln(os.Stderr, err)
			os.Exit(2)
		}
		defer f.Close()
		w = f
	}
	out = bufio.NewWriterSize(w, 1<<20)
	defer out.Flush()
	e, ok := engines[flag.Arg(0)]
	stallWatchdog(flag.Arg(0))
	if !ok {
		var names []string
		for n := range engines {
			names = append(names, n)
		}
		fmt.Fprintf(os.Stderr, "unknown engine %q (have %s)\n", flag.Arg(0), strings.Join(names, " "))
		os.Exit(2)
	}
	e(*seed, *tier, flag.Args()[1:])
}

// runContained runs an engine's cases in child processes so that a crash of the code under test
// (a panic in a server goroutine kills the whole process) is contained: the crashing case is
// reported as an oracle line and the run continues with the next case.
func runContained(engine string, seed uint64, tier string, ncases int, name func(int) string) {
	from := 0
	tmp, err := os.CreateTemp("", "verif-child-*.txt")
	if err != nil {
		panic(err)
	}
	tmp.Close()
	defer os.Remove(tmp.Name())
	for from < ncases {
		cmd := exec.Command(os.Args[0], "-seed", strconv.FormatUint(seed, 10), "-tier", tier, "-out", tmp.Name(), engine, "-child", "-from", strconv.Itoa(from))
		var stderr bytes.Buffer
		cmd.Stderr = &stderr
		cmd.Stdout = &stderr
		runErr := cmd.Run()
		data, _ := os.ReadFile(tmp.Name())
		lines := strings.Split(string(data), "\n")
		// index of the last line that closes a case
		lastEnd := -1
		for i, l := range lines {
			if (strings.HasPrefix(l, "sfin ") || strings.HasPrefix(l, "end ") || strings.HasPrefix(l, "mend ")) {
				lastEnd = i
			}
		}
		if runErr == nil {
			for _, l := range lines {
				if l != "" {
					emit("%s", l)
				}
			}
			return
		}
		for i := 0; i <= lastEnd; i++ {
			if lines[i] != "" {
				emit("%s", lines[i])
			}
		}
		crashed := from
		var partial []string
		for i := lastEnd + 1; i < len(lines); i++ {
			l := lines[i]
			if (strings.HasPrefix(l, "sbegin ") || strings.HasPrefix(l, "begin ") || strings.HasPrefix(l, "mbegin ")) {
				f := strings.Fields(l)
				if len(f) > 1 {
					if n, err := strconv.Atoi(f[1]); err == nil {
						crashed = n
					}
				}
			}
			if strings.HasPrefix(l, "oracle ") {
				emit("%s", l)
			} else if l != "" {
				partial = append(partial, l)
			}
		}
		site := "unknown"
		st := stderr.String()
		if m := regexp.MustCompile(`github\.com/anacrolix/dht/v2[^\s(]*\.([A-Za-z0-9_*().]+)\(`).FindStringSubmatch(st); m != nil {
			site = strings.NewReplacer("(", "", ")", "", "*", "").Replace(m[1])
		}
		first := ""
		for _, l := range strings.Split(st, "\n") {
			if strings.HasPrefix(l, "panic:") || strings.HasPrefix(l, "fatal error:") {
				first = l
				break
			}
		}
		if len(partial) > 6 {
			partial = partial[len(partial)-6:]
		}
		exit3 := false
		if ee, ok := runErr.(*exec.ExitError); ok && ee.ExitCode() == 3 {
			exit3 = true // the child gave up on a wedged node after reporting it itself
		}
		if !exit3 {
			emit("oracle C01 process-died:%s case=%d scenario=%s %q last-lines=%q", site, crashed, name(crashed), first, strings.Join(partial, " || "))
		}
		from = crashed + 1
	}
}
