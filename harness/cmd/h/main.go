// Command h is the correspondence harness: it drives /repo's real code through generated
// inputs and prints, one per line, `op args => observed result` (and `oracle ...` lines for
// direct property violations). The model runner recomputes every result from the inputs.
package main

import (
	"bufio"
	"encoding/hex"
	"flag"
	"fmt"
	"os"
	"strings"
)

type rng struct{ s uint64 }

func (r *rng) next() uint64 {
	r.s += 0x9e3779b97f4a7c15
	z := r.s
	z = (z ^ (z >> 30)) * 0xbf58476d1ce4e5b9
	z = (z ^ (z >> 27)) * 0x94d049bb133111eb
	return z ^ (z >> 31)
}
func (r *rng) intn(n int) int {
	if n <= 0 {
		return 0
	}
	return int(r.next() % uint64(n))
}
func (r *rng) bytes(n int) []byte {
	b := make([]byte, n)
	for i := range b {
		b[i] = byte(r.next())
	}
	return b
}
func (r *rng) bool() bool { return r.next()&1 == 1 }
func (r *rng) sub(i int) *rng {
	x := rng{s: r.s ^ (uint64(i)+1)*0xd1342543de82ef95}
	x.next()
	return &x
}

func hx(b []byte) string {
	if len(b) == 0 {
		return "-"
	}
	return hex.EncodeToString(b)
}

func unhx(s string) []byte {
	if s == "-" {
		return nil
	}
	b, err := hex.DecodeString(s)
	if err != nil {
		panic(err)
	}
	return b
}

var out *bufio.Writer

func emit(format string, a ...interface{}) {
	fmt.Fprintf(out, format, a...)
	out.WriteByte('\n')
}

func b2i(b bool) int {
	if b {
		return 1
	}
	return 0
}

type engine func(seed uint64, tier string, args []string)

var engines = map[string]engine{}

func main() {
	seed := flag.Uint64("seed", 1, "PRNG seed")
	tier := flag.String("tier", "quick", "quick|thorough")
	flag.String("prop", "", "property id the run serves")
	flag.String("replay", "", "replay file")
	outPath := flag.String("out", "", "output file (default stdout)")
	flag.Parse()
	if flag.NArg() < 1 {
		fmt.Fprintln(os.Stderr, "usage: h [-seed n] [-tier t] [-out f] engine [args]")
		os.Exit(2)
	}
	w := os.Stdout
	if *outPath != "" {
		f, err := os.Create(*outPath)
		if err != nil {
			fmt.Fprintln(os.Stderr, err)
			os.Exit(2)
		}
		defer f.Close()
		w = f
	}
	out = bufio.NewWriterSize(w, 1<<20)
	defer out.Flush()
	e, ok := engines[flag.Arg(0)]
	if !ok {
		var names []string
		for n := range engines {
			names = append(names, n)
		}
		fmt.Fprintf(os.Stderr, "unknown engine %q (have %s)\n", flag.Arg(0), strings.Join(names, " "))
		os.Exit(2)
	}
	e(*seed, *tier, flag.Args()[1:])
}
