package main

// Two more scenario families of the server engine (model-compared event by event like all the others):
//
//   - veto (C06 C08): a ServerConfig.OnQuery hook that refuses one method, a set of methods or every method, on open
//     and on enforcing nodes, passive or not. What the application decides about a query has no bearing on who is in
//     the routing table: the sender of a refused query is admitted (bucket has room, id acceptable, not read-only)
//     exactly like the sender of an answered one, a known contact's refused query counts as "heard from" (it is good
//     again after its 15 minutes), a refused query still cannot displace anybody from a full bucket. Every method is
//     sent by fresh senders, by known contacts, with the ro flag, with the own / zero id, with an id that is not valid
//     for the address; then the contacts age, come back through refused queries, and lookups are asked.
//   - closest (C09): more than K good contacts of ONE family spread over two to four adjacent buckets, the nearer
//     buckets holding fewer than K, with every order in which the contacts can have been heard from: nearer buckets
//     first (their answers are the oldest), farther first, interleaved, nearer ones refreshed only by their own
//     queries, farther ones answering again just before the nearer ones' 15 minutes end. Which K are listed may not
//     depend on any of that: the target's bucket first, then the next farther one. Lookups (find_node / get_peers /
//     get) name targets in, above and below the populated buckets and the node's own id.

import (
	"time"

	dht "github.com/anacrolix/dht/v2"
	"github.com/anacrolix/dht/v2/krpc"
)

var vetoMethods = []string{"ping", "find_node", "get_peers", "announce_peer", "get", "put", "sample_infohashes"}

func genVeto(r *rng, idx int) srvCase {
	c := srvCase{idx: idx, cfg: baseCfg(r, "veto")}
	switch idx % 4 {
	case 0:
		// the application refuses everything, including methods the library does not know
		c.cfg.veto = append(append([]string{}, vetoMethods...), "", "vote", "PING")
	case 1:
		c.cfg.veto = []string{vetoMethods[r.intn(4)]}
	case 2:
		for _, m := range vetoMethods {
			if r.intn(2) == 0 {
				c.cfg.veto = append(c.cfg.veto, m)
			}
		}
		if len(c.cfg.veto) == 0 {
			c.cfg.veto = []string{"ping", "get"}
		}
	default:
		c.cfg.veto = append([]string{}, vetoMethods...)
		if !c.cfg.autoID {
			c.cfg.nosec = false
		}
	}
	if r.intn(6) == 0 {
		c.cfg.passive = true
	}
	c.cfg.wait = r.bool()
	root := c.cfg.root
	qid := 0
	mk := func(bucket int, secure bool) speer {
		p := speer{addr: randAddr(r, famOf(r)), id: idInBucket(r, root, bucket)}
		if !c.cfg.nosec && secure {
			kid := krpc.ID(p.id)
			dht.SecureNodeId(&kid, p.addr.IP)
			for k := 0; k < 60 && sharedPrefix(root, kid) != bucket; k++ {
				p = speer{addr: randAddr(r, famOf(r)), id: idInBucket(r, root, bucket)}
				kid = krpc.ID(p.id)
				dht.SecureNodeId(&kid, p.addr.IP)
			}
			p.id = kid
		}
		return p
	}
	// buckets with plenty of room (a secured id fixes the first 21 bits: only low buckets can be hit by re-drawing)
	roomy := []int{1, 2, 3, 4}
	if c.cfg.nosec {
		roomy = append(roomy, 0, 9, 40, 100, 159)
	}
	argsFor := func(q string, id [20]byte) *krpc.MsgArgs {
		a := argsID(id)
		if r.intn(3) != 0 {
			copy(a.InfoHash[:], r.bytes(20))
			copy(a.Target[:], r.bytes(20))
			a.Want = wantChoices(r)
			a.Token = string(r.bytes(r.intn(9)))
			if q == "announce_peer" || r.intn(4) == 0 {
				p := 1 + r.intn(65535)
				a.Port = &p
			}
		}
		return a
	}
	methods := append(append([]string{}, vetoMethods...), "vote")
	client := speer{addr: randAddr(r, 0), id: idInBucket(r, root, 120+r.intn(30))}
	ask := func() {
		q := []string{"find_node", "get_peers", "get"}[r.intn(3)]
		a := &krpc.MsgArgs{ID: client.id, Want: []krpc.Want{"n4", "n6"}}
		tg := root
		if r.bool() {
			tg = idInBucket(r, root, roomy[r.intn(len(roomy))])
		}
		a.Target, a.InfoHash = tg, tg
		c.evs = append(c.evs, qpkt(client.addr, q, string(r.bytes(2)), a))
	}
	// a few contacts that answered us, so that there is something to list and to age
	var known []speer
	for i := 0; i < 4; i++ {
		p := mk(roomy[r.intn(len(roomy))], true)
		known = append(known, p)
		c.evs = append(c.evs, makeGood(&qid, p, nil)...)
	}
	// every method from fresh senders into buckets with room, in all the forms that matter for admission
	for _, q := range methods {
		for rep := 0; rep < 2; rep++ {
			p := mk(roomy[r.intn(len(roomy))], r.intn(4) != 0)
			switch r.intn(8) {
			case 0:
				c.evs = append(c.evs, sev{kind: "pkt", src: p.addr, msg: &krpc.Msg{Q: q, Y: "q", T: "ro", A: argsFor(q, p.id), ReadOnly: true}})
			case 1:
				c.evs = append(c.evs, qpkt(p.addr, q, "ow", argsFor(q, root)))
			case 2:
				c.evs = append(c.evs, qpkt(p.addr, q, "zz", argsFor(q, [20]byte{})))
			default:
				c.evs = append(c.evs, qpkt(p.addr, q, string(r.bytes(1+r.intn(3))), argsFor(q, p.id)))
				known = append(known, p)
				if r.intn(3) == 0 {
					// the same sender again, through another method
					q2 := methods[r.intn(len(methods))]
					c.evs = append(c.evs, qpkt(p.addr, q2, "ag", argsFor(q2, p.id)))
				}
			}
		}
		if r.intn(3) == 0 {
			ask()
		}
	}
	ask()
	// a bucket filled by refused (and answered) queries, then one sender too many; one entry made bad and displaced
	full := 5 + r.intn(3)
	if !c.cfg.nosec {
		full = 0
	}
	var crowd []speer
	for i := 0; i < 10; i++ {
		p := mk(full, true)
		crowd = append(crowd, p)
		q := methods[r.intn(len(methods))]
		c.evs = append(c.evs, qpkt(p.addr, q, "fl", argsFor(q, p.id)))
	}
	victim := crowd[r.intn(6)]
	c.evs = append(c.evs, sev{kind: "failping", src: victim.addr, id: victim.id})
	for i := 0; i < 2; i++ {
		p := mk(full, true)
		q := methods[r.intn(len(methods))]
		c.evs = append(c.evs, qpkt(p.addr, q, "ev", argsFor(q, p.id)))
	}
	ask()
	// everybody ages out of "good"; contacts that answered before are heard from again through queries, refused or not
	c.evs = append(c.evs, sev{kind: "adv", adv: []time.Duration{16 * time.Minute, 31 * time.Minute}[r.intn(2)]})
	ask()
	for i := 0; i < 6; i++ {
		p := known[r.intn(len(known))]
		q := methods[r.intn(len(methods))]
		c.evs = append(c.evs, qpkt(p.addr, q, "bk", argsFor(q, p.id)))
		if i%2 == 1 {
			ask()
		}
	}
	c.evs = append(c.evs, sev{kind: "adv", adv: 14 * time.Minute})
	ask()
	c.evs = append(c.evs, sev{kind: "adv", adv: 2 * time.Minute})
	ask()
	return c
}

// ---------------------------------------------------------------- scenario: closest (C09)
func genClosest(r *rng, idx int) srvCase {
	c := srvCase{idx: idx, cfg: baseCfg(r, "closest")}
	root := c.cfg.root
	qid := 0
	order := idx % 6
	fam := []int{0, 1, 0, 1, 0, 2}[r.intn(6)] // the crowded family (2: v4-mapped sources, IPv4 contacts)
	near := []int{1, 2, 3, 5, 9, 30}[r.intn(6)]
	nb := 2 + r.intn(3) // populated buckets: near, near-1, ...
	if nb > near+1 {
		nb = near + 1
	}
	type member struct {
		p     speer
		depth int // 0 = the nearest populated bucket
	}
	var groups [][]member
	total := 0
	for d := 0; d < nb; d++ {
		n := 1 + r.intn(7)
		if d > 0 {
			n = 3 + r.intn(6)
		}
		if d == nb-1 && total+n <= 9 {
			n = 8
		}
		var g []member
		for i := 0; i < n; i++ {
			g = append(g, member{speer{addr: randAddr(r, fam), id: idInBucket(r, root, near-d)}, d})
		}
		total += n
		groups = append(groups, g)
	}
	good := func(m member) { c.evs = append(c.evs, makeGood(&qid, m.p, nil)...) }
	heard := func(m member) {
		c.evs = append(c.evs, qpkt(m.p.addr, []string{"ping", "find_node", "get"}[r.intn(3)], string(r.bytes(2)), &krpc.MsgArgs{ID: m.p.id, Target: root}))
	}
	adv := func(d time.Duration) { c.evs = append(c.evs, sev{kind: "adv", adv: d}) }
	var all []member
	for _, g := range groups {
		all = append(all, g...)
	}
	shuffle := func(l []member) []member {
		l = append([]member{}, l...)
		for i := range l {
			j := i + r.intn(len(l)-i)
			l[i], l[j] = l[j], l[i]
		}
		return l
	}
	gap := []time.Duration{0, time.Second, time.Minute, 5 * time.Minute}
	switch order {
	case 0, 4:
		// nearer buckets first: their answers are the oldest
		for _, g := range groups {
			for _, m := range g {
				good(m)
			}
			adv(gap[1+r.intn(3)])
		}
	case 1:
		// farther buckets first
		for d := len(groups) - 1; d >= 0; d-- {
			for _, m := range groups[d] {
				good(m)
			}
			adv(gap[r.intn(4)])
		}
	case 2:
		for _, m := range shuffle(all) {
			good(m)
			if r.intn(4) == 0 {
				adv(gap[r.intn(4)])
			}
		}
	case 3:
		// nearer first; later the nearer ones are heard from only through their own queries
		for _, g := range groups {
			for _, m := range g {
				good(m)
			}
			adv(time.Minute)
		}
		for _, m := range groups[0] {
			heard(m)
		}
	default:
		// everybody answers; 14 minutes later only the farther ones answer again
		for _, m := range shuffle(all) {
			good(m)
		}
		adv(14 * time.Minute)
		for d := len(groups) - 1; d >= 1; d-- {
			for _, m := range groups[d] {
				if r.intn(4) != 0 {
					good(m)
				}
			}
		}
	}
	// entries that are never listed: some that never answered, one that failed its ping, a few of the other family
	for i := 0; i < 3; i++ {
		b := near - r.intn(nb)
		p := speer{addr: randAddr(r, fam), id: idInBucket(r, root, b)}
		c.evs = append(c.evs, qpkt(p.addr, "ping", "qu", argsID(p.id)))
	}
	if r.bool() {
		m := all[r.intn(len(all))]
		c.evs = append(c.evs, sev{kind: "failping", src: m.p.addr, id: m.p.id})
	}
	otherFam := 1
	if fam == 1 {
		otherFam = 0
	}
	for i := 0; i < 3; i++ {
		p := speer{addr: randAddr(r, otherFam), id: idInBucket(r, root, near-r.intn(nb))}
		c.evs = append(c.evs, makeGood(&qid, p, nil)...)
	}
	clients := []speer{
		{addr: randAddr(r, 0), id: idInBucket(r, root, 60+r.intn(90))},
		{addr: randAddr(r, 1), id: idInBucket(r, root, 60+r.intn(90))},
		{addr: randAddr(r, 2), id: idInBucket(r, root, 60+r.intn(90))},
	}
	ask := func() {
		cl := clients[r.intn(3)]
		if r.bool() {
			cl = clients[fam]
		}
		var tg [20]byte
		switch r.intn(8) {
		case 0:
			tg = root
		case 1:
			tg = idInBucket(r, root, near+1+r.intn(20)) // an empty bucket beyond the nearest populated one
		case 2:
			tg = idInBucket(r, root, 159)
		case 3:
			tg = idInBucket(r, root, near-r.intn(nb)) // one of the farther populated buckets
		case 4:
			tg = all[r.intn(len(all))].p.id // the id of a contact
		default:
			tg = idInBucket(r, root, near)
		}
		want := [][]krpc.Want{{"n4", "n6"}, nil, {"n4"}, {"n6"}, {"n6", "n4"}}[r.intn(5)]
		a := &krpc.MsgArgs{ID: cl.id, Want: want}
		q := []string{"find_node", "get_peers", "get"}[r.intn(3)]
		if q == "get_peers" {
			a.InfoHash = tg
		} else {
			a.Target = tg
		}
		c.evs = append(c.evs, qpkt(cl.addr, q, string(r.bytes(1+r.intn(3))), a))
	}
	for i := 0; i < 14; i++ {
		ask()
	}
	// the contacts move on: a few are heard from again (answers and queries), time passes, some age out
	for round := 0; round < 3; round++ {
		for _, m := range shuffle(all)[:1+r.intn(4)] {
			if r.bool() {
				good(m)
			} else {
				heard(m)
			}
		}
		adv([]time.Duration{time.Minute, 5 * time.Minute, 9 * time.Minute, 14 * time.Minute}[r.intn(4)])
		for i := 0; i < 6; i++ {
			ask()
		}
	}
	return c
}
