package main

// Case generators of the "server" engine: structured histories aimed at each mechanism the
// properties anchor (see DESIGN.md 4.3).

import (
	"net"
	"time"

	dht "github.com/anacrolix/dht/v2"
	"github.com/anacrolix/dht/v2/krpc"
)

type speer struct {
	addr *net.UDPAddr
	id   [20]byte
}

// id sharing exactly i leading bits with root
func idInBucket(r *rng, root [20]byte, i int) (id [20]byte) {
	copy(id[:], r.bytes(20))
	for j := 0; j < i; j++ {
		m := byte(1 << (7 - j%8))
		id[j/8] = id[j/8]&^m | root[j/8]&m
	}
	m := byte(1 << (7 - i%8))
	id[i/8] = id[i/8]&^m | (^root[i/8])&m
	return
}

// addrExempt: while set (generation is single-threaded), randAddr draws addresses of the networks BEP 42 exempts
// (10/8, 172.16/12, 192.168/16; fe80::/10), for which every node id is acceptable: histories for nodes that enforce
// the security extension and whose own id is not known when the history is generated (see srvCfg.autoID).
var addrExempt bool

func exemptV4(r *rng) []byte {
	switch r.intn(3) {
	case 0:
		return []byte{10, byte(r.intn(256)), byte(r.intn(256)), byte(1 + r.intn(254))}
	case 1:
		return []byte{172, byte(16 + r.intn(16)), byte(r.intn(256)), byte(1 + r.intn(254))}
	default:
		return []byte{192, 168, byte(r.intn(256)), byte(1 + r.intn(254))}
	}
}

func randAddr(r *rng, fam int) *net.UDPAddr {
	port := 1 + r.intn(65535)
	if addrExempt {
		switch fam {
		case 0:
			return udp(exemptV4(r), port)
		case 1:
			ip := r.bytes(16)
			ip[0] = 0xfe
			ip[1] = 0x80 | ip[1]&0x3f
			return udp(ip, port)
		default:
			return udp(mapped(exemptV4(r)), port)
		}
	}
	switch fam {
	case 0:
		return udp([]byte{byte(11 + r.intn(200)), byte(r.intn(256)), byte(r.intn(256)), byte(1 + r.intn(254))}, port)
	case 1:
		ip := r.bytes(16)
		ip[0] = 0x20
		ip[1] = 0x01
		return udp(ip, port)
	default:
		return udp(mapped([]byte{byte(11 + r.intn(200)), byte(r.intn(256)), byte(r.intn(256)), byte(1 + r.intn(254))}), port)
	}
}

func famOf(r *rng) int {
	x := r.intn(10)
	if x < 6 {
		return 0
	}
	if x < 9 {
		return 1
	}
	return 2
}

func qpkt(src *net.UDPAddr, q, t string, a *krpc.MsgArgs) sev {
	return sev{kind: "pkt", src: src, msg: &krpc.Msg{Q: q, Y: "q", T: t, A: a}}
}

func argsID(id [20]byte) *krpc.MsgArgs { return &krpc.MsgArgs{ID: id} }

// we query p, p answers: p becomes a responded (good) contact
func makeGood(qid *int, p speer, extra func(*krpc.Return)) []sev {
	*qid++
	id := *qid
	resp := sev{kind: "pkt", src: p.addr}
	resp.dyn = func(st *srvState, e *sev) {
		ret := krpc.Return{ID: p.id}
		if extra != nil {
			extra(&ret)
		}
		e.msg = &krpc.Msg{Y: "r", T: st.qt[id], R: &ret}
	}
	return []sev{
		{kind: "qstart", qid: id, src: p.addr, q: "ping", rated: true},
		resp,
	}
}

var advChoices = []time.Duration{0, time.Minute, 14 * time.Minute, 16 * time.Minute, 31 * time.Minute, 5 * time.Minute}

func wantChoices(r *rng) []krpc.Want {
	switch r.intn(6) {
	case 0:
		return nil
	case 1:
		return []krpc.Want{"n4"}
	case 2:
		return []krpc.Want{"n6"}
	case 3:
		return []krpc.Want{"n4", "n6"}
	case 4:
		return []krpc.Want{"junk"}
	default:
		return []krpc.Want{}
	}
}

func baseCfg(r *rng, scenario string) srvCfg {
	var c srvCfg
	copy(c.root[:], r.bytes(20))
	c.nosec = true
	c.ps = true
	c.cb = true
	c.budget = -1
	c.scenario = scenario
	if cfgOverride != nil {
		cfgOverride(&c)
	}
	return c
}

// cfgOverride, while set, is applied to every base configuration (variants of whole scenarios under another
// configuration, see server_gen_cfg.go)
var cfgOverride func(*srvCfg)

var bucketSpread = []int{0, 1, 2, 3, 7, 8, 17, 63, 64, 100, 127, 150, 158, 159}

// ---------------------------------------------------------------- scenario: routing table
func genTable(r *rng, idx int, n int) srvCase {
	c := srvCase{idx: idx, cfg: baseCfg(r, "table")}
	if c.cfg.autoID {
		// the variant fixes security / public IP itself
	} else if r.intn(4) == 0 {
		c.cfg.nosec = false
		if r.bool() {
			// a public IP in the configuration together with a caller-chosen node id
			c.cfg.publicIP = net.IPv4(byte(11+r.intn(200)), byte(r.intn(256)), byte(r.intn(256)), byte(1+r.intn(254))).To4()
		}
	}
	root := c.cfg.root
	qid := 0
	b := bucketSpread[r.intn(len(bucketSpread))]
	var peers []speer
	mk := func(bucket int) speer {
		p := speer{addr: randAddr(r, famOf(r)), id: idInBucket(r, root, bucket)}
		if !c.cfg.nosec && r.intn(3) != 0 {
			kid := krpc.ID(p.id)
			dht.SecureNodeId(&kid, p.addr.IP)
			// keep the bucket: re-draw a few times until the secured id still lands in the bucket
			for k := 0; k < 40 && sharedPrefix(root, kid) != bucket; k++ {
				p = speer{addr: randAddr(r, famOf(r)), id: idInBucket(r, root, bucket)}
				kid = krpc.ID(p.id)
				dht.SecureNodeId(&kid, p.addr.IP)
			}
			p.id = kid
		}
		return p
	}
	for i := 0; i < 12; i++ {
		peers = append(peers, mk(b))
	}
	other := bucketSpread[r.intn(len(bucketSpread))]
	for i := 0; i < 4; i++ {
		peers = append(peers, mk(other))
	}
	client := speer{addr: randAddr(r, 0), id: idInBucket(r, root, r.intn(160))}
	client6 := speer{addr: randAddr(r, 1), id: idInBucket(r, root, r.intn(160))}
	clientM := speer{addr: randAddr(r, 2), id: idInBucket(r, root, r.intn(160))}
	for len(c.evs) < n {
		p := peers[r.intn(len(peers))]
		switch r.intn(16) {
		case 0, 1, 2:
			c.evs = append(c.evs, qpkt(p.addr, "ping", string(r.bytes(2)), argsID(p.id)))
		case 3, 4, 5, 6:
			c.evs = append(c.evs, makeGood(&qid, p, nil)...)
		case 7:
			c.evs = append(c.evs, sev{kind: "adv", adv: advChoices[r.intn(len(advChoices))]})
		case 8:
			c.evs = append(c.evs, sev{kind: "failping", src: p.addr, id: p.id})
		case 9:
			c.evs = append(c.evs, sev{kind: "addnode", src: p.addr, id: p.id})
		case 10:
			// variants: same id other address / same address other id / own id / zero id / read-only
			switch r.intn(6) {
			case 5:
				// the same contact through the other representation of its IPv4 address
				if ip4 := p.addr.IP.To4(); ip4 != nil {
					alt := udp(ip4, p.addr.Port)
					if len(p.addr.IP) == 4 {
						alt = udp(mapped(ip4), p.addr.Port)
					}
					if r.bool() {
						c.evs = append(c.evs, sev{kind: "addnode", src: alt, id: p.id})
					} else {
						c.evs = append(c.evs, qpkt(alt, "ping", "x", argsID(p.id)))
					}
				}
			case 0:
				c.evs = append(c.evs, qpkt(randAddr(r, 0), "ping", "x", argsID(p.id)))
			case 1:
				c.evs = append(c.evs, qpkt(p.addr, "ping", "x", argsID(idInBucket(r, root, b))))
			case 2:
				c.evs = append(c.evs, qpkt(p.addr, "ping", "x", argsID(root)))
			case 3:
				c.evs = append(c.evs, qpkt(p.addr, "ping", "x", argsID([20]byte{})))
			case 4:
				m := &krpc.Msg{Q: "ping", Y: "q", T: "ro", A: argsID(idInBucket(r, root, b)), ReadOnly: true}
				c.evs = append(c.evs, sev{kind: "pkt", src: randAddr(r, 0), msg: m})
			}
		case 11:
			// hearsay: a good peer's reply lists third parties; unsolicited response
			third := mk(b)
			if r.bool() {
				c.evs = append(c.evs, makeGood(&qid, p, func(ret *krpc.Return) {
					ret.Nodes = krpc.CompactIPv4NodeInfo{{ID: third.id, Addr: krpc.NodeAddr{IP: net.IPv4(9, 9, 9, 9).To4(), Port: 9}}}
				})...)
			} else if r.bool() {
				c.evs = append(c.evs, sev{kind: "pkt", src: third.addr, msg: &krpc.Msg{Y: "r", T: "zz", R: &krpc.Return{ID: third.id}}})
			} else {
				// an unsolicited "response" (or error) from a contact that is already in the table
				y := []string{"r", "r", "e"}[r.intn(3)]
				m := &krpc.Msg{Y: y, T: string(r.bytes(1 + r.intn(3)))}
				if y == "r" {
					m.R = &krpc.Return{ID: p.id}
				} else {
					m.E = &krpc.Error{Code: 201, Msg: "late"}
				}
				c.evs = append(c.evs, sev{kind: "pkt", src: p.addr, msg: m})
			}
		case 12, 13, 14:
			// lookups served from the table: find_node / get_peers / get with targets per bucket
			cl := client
			switch r.intn(6) {
			case 0, 1:
				cl = client6
			case 2:
				cl = clientM
			}
			var tg [20]byte
			switch r.intn(5) {
			case 0:
				tg = root
			case 1:
				tg = idInBucket(r, root, b)
			case 2:
				tg = idInBucket(r, root, other)
			case 3:
				tg = idInBucket(r, root, min(159, b+1+r.intn(3)))
			default:
				copy(tg[:], r.bytes(20))
			}
			a := &krpc.MsgArgs{ID: cl.id, Want: wantChoices(r)}
			q := []string{"find_node", "get_peers", "get"}[r.intn(3)]
			if q == "get_peers" {
				a.InfoHash = tg
			} else {
				a.Target = tg
			}
			if r.intn(4) == 0 {
				// a stray value in the field the method does not read
				stray := idInBucket(r, root, bucketSpread[r.intn(len(bucketSpread))])
				if q == "get_peers" {
					a.Target = stray
				} else {
					a.InfoHash = stray
				}
			}
			c.evs = append(c.evs, qpkt(cl.addr, q, string(r.bytes(1+r.intn(3))), a))
		case 15:
			fresh := mk(b)
			peers = append(peers, fresh)
			if r.bool() {
				c.evs = append(c.evs, qpkt(fresh.addr, "ping", "n", argsID(fresh.id)))
			} else {
				c.evs = append(c.evs, makeGood(&qid, fresh, nil)...)
			}
		}
	}
	return c
}

// ---------------------------------------------------------------- scenario: method x argument lattice
func genMethods(r *rng, idx int) srvCase {
	c := srvCase{idx: idx, cfg: baseCfg(r, "methods")}
	switch r.intn(10) {
	case 8, 9:
		// passive AND a query hook that lets everything through: still silent
		c.cfg.passive = true
		c.cfg.veto = []string{"__no_such_method__"}
	case 0:
		c.cfg.passive = true
	case 1:
		c.cfg.veto = []string{[]string{"ping", "get_peers", "announce_peer", "find_node"}[r.intn(4)]}
	case 2:
		c.cfg.ps = false
	case 3:
		c.cfg.cb = false
	}
	root := c.cfg.root
	qid := 0
	for i := 0; i < 5; i++ {
		p := speer{addr: randAddr(r, famOf(r)), id: idInBucket(r, root, []int{0, 1, 2, 159}[r.intn(4)])}
		c.evs = append(c.evs, makeGood(&qid, p, nil)...)
	}
	methods := []string{"ping", "find_node", "get_peers", "announce_peer", "get", "put", "sample_infohashes", "", "PING", "vote"}
	ts := []string{"", "a", "aa", string(r.bytes(40)), "\x00\xff\x00", string(r.bytes(7))}
	for _, q := range methods {
		for shape := 0; shape < 3; shape++ {
			src := randAddr(r, famOf(r))
			var a *krpc.MsgArgs
			switch shape {
			case 1:
				a = argsID(idInBucket(r, root, r.intn(160)))
			case 2:
				a = argsID(idInBucket(r, root, r.intn(160)))
				copy(a.InfoHash[:], r.bytes(20))
				copy(a.Target[:], r.bytes(20))
				a.Want = wantChoices(r)
				a.Token = string(r.bytes(r.intn(21)))
				if r.bool() {
					p := r.intn(70000)
					a.Port = &p
				}
				a.ImpliedPort = r.bool()
			}
			c.evs = append(c.evs, qpkt(src, q, ts[r.intn(len(ts))], a))
		}
	}
	// non-queries: responses, errors, unknown y, with and without a matching t
	for _, y := range []string{"r", "e", "x", ""} {
		src := randAddr(r, 0)
		m := &krpc.Msg{Y: y, T: "nq"}
		if y == "r" {
			m.R = &krpc.Return{ID: idInBucket(r, root, 3)}
		}
		if y == "e" {
			m.E = &krpc.Error{Code: 201, Msg: "boo"}
		}
		c.evs = append(c.evs, sev{kind: "pkt", src: src, msg: m})
	}
	return c
}

// ---------------------------------------------------------------- scenario: tokens (C10) and peers (C11)
func genTokens(r *rng, idx int) srvCase { return genTokensCfg(r, idx, nil) }

// genTokensCfg is the token scenario under a configuration chosen by tweak (nil = the base configuration:
// peer store and announce hook both configured). Without a peer store get_peers hands out no token, so
// tokens are then obtained through BEP 44 get.
func genTokensCfg(r *rng, idx int, tweak func(*srvCfg)) srvCase {
	c := srvCase{idx: idx, cfg: baseCfg(r, "tokens")}
	if tweak != nil {
		tweak(&c.cfg)
	}
	root := c.cfg.root
	a4 := randAddr(r, 0)
	other := randAddr(r, 0)
	variants := []*net.UDPAddr{a4, udp(a4.IP, 1+r.intn(65535)), udp(mapped(a4.IP.To4()), a4.Port), other, randAddr(r, 1)}
	id := idInBucket(r, root, r.intn(160))
	var ih [20]byte
	copy(ih[:], r.bytes(20))
	// align the virtual clock somewhere in the 5-minute grid cell
	c.evs = append(c.evs, sev{kind: "adv", adv: time.Duration(r.intn(300)) * time.Second})
	var issued, otherTok string
	issue := func() {
		if tweak != nil && (!c.cfg.ps || r.bool()) {
			c.evs = append(c.evs, qpkt(a4, "get", "gp", &krpc.MsgArgs{ID: id, Target: ih}))
			c.evs = append(c.evs, qpkt(other, "get", "go", &krpc.MsgArgs{ID: id, Target: ih}))
		} else {
			c.evs = append(c.evs, qpkt(a4, "get_peers", "gp", &krpc.MsgArgs{ID: id, InfoHash: ih}))
			c.evs = append(c.evs, qpkt(other, "get_peers", "go", &krpc.MsgArgs{ID: id, InfoHash: ih}))
		}
		c.evs = append(c.evs, sev{kind: "adv", adv: 0, dyn: func(st *srvState, e *sev) {
			issued = st.lastTok[ipKey(a4.IP)]
			otherTok = st.lastTok[ipKey(other.IP)]
		}})
	}
	write := func(src *net.UDPAddr, kind int) {
		q := "announce_peer"
		if r.intn(4) == 0 {
			q = "put"
		}
		port := 1 + r.intn(65535)
		e := sev{kind: "pkt", src: src}
		e.dyn = func(st *srvState, e *sev) {
			tok := issued
			b := []byte(tok)
			switch kind {
			case 0: // as issued
			case 1: // one bit flipped
				if len(b) > 0 {
					b[r.intn(len(b))] ^= byte(1 << r.intn(8))
					tok = string(b)
				}
			case 2: // last byte cut
				if len(b) > 0 {
					tok = tok[:len(tok)-1]
				}
			case 3: // first byte cut
				if len(b) > 0 {
					tok = tok[1:]
				}
			case 4: // a short prefix
				if len(b) > 0 {
					tok = tok[:1+r.intn(len(tok)-1)]
				}
			case 5: // extended
				tok += string(r.bytes(1 + r.intn(3)))
			case 6:
				tok = ""
			case 7:
				tok = string(r.bytes(20))
			case 8: // a genuine token of this server, issued to another IP
				tok = otherTok
			case 9: // one byte only
				tok = string(r.bytes(1))
			}
			a := &krpc.MsgArgs{ID: id, InfoHash: ih, Token: tok, Port: &port, ImpliedPort: port%3 == 0}
			if q == "put" {
				a.Port = nil
				a.ImpliedPort = false
				// no seq: a valid token gets error 203 "expected seq argument", an invalid one silence
			}
			e.msg = &krpc.Msg{Q: q, Y: "q", T: "an", A: a}
		}
		c.evs = append(c.evs, e)
	}
	// phase A: every token mutation while the genuine token is fresh (well inside 10 minutes)
	issue()
	kinds := []int{0, 1, 2, 3, 4, 5, 6, 7, 8, 9}
	for i := range kinds {
		j := i + r.intn(len(kinds)-i)
		kinds[i], kinds[j] = kinds[j], kinds[i]
	}
	for _, k := range kinds {
		if r.intn(3) == 0 {
			c.evs = append(c.evs, sev{kind: "adv", adv: time.Duration(10+r.intn(40)) * time.Second})
		}
		src := a4
		if k == 0 {
			src = variants[r.intn(3)]
		}
		write(src, k)
	}
	// phase B: the genuine token along the time axis, from every form of the address
	issue()
	steps := []time.Duration{0, 30 * time.Second, 4 * time.Minute, 5 * time.Minute, 30 * time.Second, 4 * time.Minute, 90 * time.Second, 5 * time.Minute, time.Minute}
	for _, d := range steps {
		if d > 0 {
			c.evs = append(c.evs, sev{kind: "adv", adv: d})
		}
		write(variants[r.intn(len(variants))], 0)
		if r.intn(3) == 0 {
			c.evs = append(c.evs, qpkt(randAddr(r, famOf(r)), "get_peers", "g2", &krpc.MsgArgs{ID: id, InfoHash: ih, Want: wantChoices(r)}))
		}
	}
	// phase C: long uptimes. A token issued shortly before the node has been up for a whole number of days (or any
	// other long time) and used shortly afterwards is as good as any other fresh token; 16 minutes later it is not.
	if r.intn(2) == 0 {
		var up time.Duration
		for _, e := range c.evs {
			if e.kind == "adv" {
				up += e.adv
			}
		}
		days := time.Duration(1+r.intn(3)) * 24 * time.Hour
		if r.intn(4) == 0 {
			days = time.Duration(1+r.intn(400)) * time.Hour
		}
		if days > up+2*time.Minute {
			c.evs = append(c.evs, sev{kind: "adv", adv: days - up - time.Duration(30+r.intn(90))*time.Second})
			issue()
			c.evs = append(c.evs, sev{kind: "adv", adv: time.Duration(2+r.intn(3)) * time.Minute})
			write(a4, 0)
			write(other, 8)
			c.evs = append(c.evs, sev{kind: "adv", adv: 5 * time.Minute})
			write(variants[r.intn(3)], 0)
			c.evs = append(c.evs, sev{kind: "adv", adv: 11 * time.Minute})
			write(a4, 0)
		}
	}
	return c
}

func genPeers(r *rng, idx int) srvCase {
	c := srvCase{idx: idx, cfg: baseCfg(r, "peers")}
	root := c.cfg.root
	var ihs [3][20]byte
	for i := range ihs {
		copy(ihs[i][:], r.bytes(20))
	}
	var ann []*net.UDPAddr
	for i := 0; i < 5; i++ {
		ann = append(ann, randAddr(r, famOf(r)))
	}
	ann = append(ann, udp(ann[0].IP, 1+r.intn(65535)))
	for step := 0; step < 18; step++ {
		src := ann[r.intn(len(ann))]
		ih := ihs[r.intn(len(ihs))]
		id := idInBucket(r, root, r.intn(160))
		if r.intn(3) != 0 {
			// get a token, then announce with it
			c.evs = append(c.evs, qpkt(src, "get_peers", "t", &krpc.MsgArgs{ID: id, InfoHash: ih}))
			port := []int{1, 80, 6881, 65535, 1 + r.intn(65535)}[r.intn(5)]
			implied := r.intn(3) == 0
			e := sev{kind: "pkt", src: src}
			e.dyn = func(st *srvState, e *sev) {
				a := &krpc.MsgArgs{ID: id, InfoHash: ih, Token: st.lastTok[ipKey(src.IP)], ImpliedPort: implied}
				if !implied || r.bool() {
					a.Port = &port
				}
				e.msg = &krpc.Msg{Q: "announce_peer", Y: "q", T: "ap", A: a}
			}
			c.evs = append(c.evs, e)
		} else {
			c.evs = append(c.evs, qpkt(randAddr(r, famOf(r)), "get_peers", "gq", &krpc.MsgArgs{ID: id, InfoHash: ih, Want: wantChoices(r)}))
		}
	}
	for _, ih := range ihs {
		for k := 0; k < 3; k++ {
			c.evs = append(c.evs, qpkt(randAddr(r, k%3), "get_peers", "gf", &krpc.MsgArgs{ID: idInBucket(r, root, 5), InfoHash: ih, Want: wantChoices(r)}))
		}
	}
	return c
}

// ---------------------------------------------------------------- scenario: outbound queries and their replies (C07)
func genQueries(r *rng, idx int) srvCase {
	c := srvCase{idx: idx, cfg: baseCfg(r, "queries")}
	if r.intn(4) == 0 {
		c.cfg.passive = true
	}
	root := c.cfg.root
	var dsts []speer
	for i := 0; i < 3; i++ {
		dsts = append(dsts, speer{addr: randAddr(r, famOf(r)), id: idInBucket(r, root, r.intn(160))})
	}
	dsts = append(dsts, speer{addr: udp(dsts[0].addr.IP, dsts[0].addr.Port), id: dsts[0].id})
	qid := 0
	var open []int
	dstOf := map[int]speer{}
	for step := 0; step < 26; step++ {
		switch {
		case len(open) < 2 || r.intn(4) == 0:
			qid++
			d := dsts[r.intn(len(dsts))]
			dstOf[qid] = d
			open = append(open, qid)
			q := []string{"ping", "find_node", "get_peers"}[r.intn(3)]
			c.evs = append(c.evs, sev{kind: "qstart", qid: qid, src: d.addr, q: q, rated: r.intn(4) != 0, args: krpc.MsgArgs{Target: root}})
		default:
			k := r.intn(len(open))
			id := open[k]
			d := dstOf[id]
			variant := r.intn(9)
			e := sev{kind: "pkt"}
			e.dyn = func(st *srvState, e *sev) {
				t := st.qt[id]
				src := d.addr
				y := "r"
				switch variant {
				case 0, 1, 2: // exact
				case 3:
					src = udp(d.addr.IP, d.addr.Port%65535+1)
				case 4:
					src = randAddr(r, 0)
				case 5:
					if len(t) > 0 {
						b := []byte(t)
						b[len(b)-1]++
						t = string(b)
					}
				case 6:
					t = t + "\x00"
				case 7:
					if ip4 := d.addr.IP.To4(); ip4 != nil {
						if len(d.addr.IP) == 4 {
							src = udp(mapped(ip4), d.addr.Port)
						} else {
							src = udp(ip4, d.addr.Port)
						}
					}
				case 8:
					y = "e"
				}
				m := &krpc.Msg{Y: y, T: t}
				if y == "r" {
					m.R = &krpc.Return{ID: d.id}
				} else {
					m.E = &krpc.Error{Code: 202, Msg: "srv"}
				}
				e.src = src
				e.msg = m
			}
			e.src = d.addr
			c.evs = append(c.evs, e)
			if variant <= 2 || variant == 7 || variant == 8 {
				// replay of the same reply afterwards
				e2 := e
				c.evs = append(c.evs, e2)
				open = append(open[:k], open[k+1:]...)
			}
			if r.intn(6) == 0 && len(open) > 0 {
				j := r.intn(len(open))
				c.evs = append(c.evs, sev{kind: "qend", qid: open[j]})
				open = append(open[:j], open[j+1:]...)
			}
		}
	}
	return c
}

// ---------------------------------------------------------------- scenario: blocklist, close, malformed, budget
func genBlock(r *rng, idx int) srvCase {
	c := srvCase{idx: idx, cfg: baseCfg(r, "blocklist")}
	root := c.cfg.root
	bad := []*net.UDPAddr{randAddr(r, 0), randAddr(r, 1), randAddr(r, 2)}
	good := []*net.UDPAddr{randAddr(r, 0), randAddr(r, 1)}
	bl := blockOf(bad[0].IP, bad[1].IP, bad[2].IP)
	early := r.bool()
	if early {
		c.cfg.bl = bl
	}
	qid := 0
	all := append(append([]*net.UDPAddr{}, bad...), good...)
	phase := func() {
		for _, a := range all {
			id := idInBucket(r, root, r.intn(4))
			c.evs = append(c.evs, qpkt(a, []string{"ping", "find_node", "get_peers", "zzz"}[r.intn(4)], "b", &krpc.MsgArgs{ID: id}))
			qid++
			c.evs = append(c.evs, sev{kind: "qstart", qid: qid, src: a, q: "ping", rated: true})
			my := qid
			e := sev{kind: "pkt", src: a}
			e.dyn = func(st *srvState, e *sev) {
				e.msg = &krpc.Msg{Y: "r", T: st.qt[my], R: &krpc.Return{ID: id}}
			}
			c.evs = append(c.evs, e)
			c.evs = append(c.evs, sev{kind: "qend", qid: my})
		}
	}
	phase()
	// queries still in flight when the blocklist changes: the reply of a newly blocked address
	var inflight []func()
	if !early {
		for _, a := range all {
			a := a
			qid++
			my := qid
			id := idInBucket(r, root, r.intn(4))
			c.evs = append(c.evs, sev{kind: "qstart", qid: my, src: a, q: "find_node", rated: true, args: krpc.MsgArgs{Target: root}})
			inflight = append(inflight, func() {
				e := sev{kind: "pkt", src: a}
				e.dyn = func(st *srvState, e *sev) {
					e.msg = &krpc.Msg{Y: "r", T: st.qt[my], R: &krpc.Return{ID: id}}
				}
				c.evs = append(c.evs, e, sev{kind: "qend", qid: my})
			})
		}
	}
	if !early {
		c.evs = append(c.evs, sev{kind: "setbl", bl: bl})
		for _, f := range inflight {
			f()
		}
	} else if r.bool() {
		c.evs = append(c.evs, sev{kind: "setbl", bl: nil})
	}
	phase()
	// the 4-byte form of a blocked v4-mapped address and vice versa
	if ip4 := bad[2].IP.To4(); ip4 != nil {
		c.evs = append(c.evs, qpkt(udp(ip4, 7), "ping", "m", argsID(idInBucket(r, root, 1))))
	}
	c.evs = append(c.evs, qpkt(udp(mapped(bad[0].IP.To4()), 7), "ping", "m", argsID(idInBucket(r, root, 1))))
	return c
}

func genMisc(r *rng, idx int) srvCase {
	c := srvCase{idx: idx, cfg: baseCfg(r, "misc")}
	root := c.cfg.root
	src := randAddr(r, 0)
	id := idInBucket(r, root, 2)
	ping := func(a *net.UDPAddr) sev { return qpkt(a, "ping", "mp", argsID(id)) }
	c.evs = append(c.evs, ping(src))
	// malformed / filtered datagrams
	c.evs = append(c.evs, sev{kind: "pkt", src: src, raw: []byte("d1:q4:ping1:t2:aa1:y1:q")})  // truncated
	c.evs = append(c.evs, sev{kind: "pkt", src: src, raw: []byte("li1ee")})                      // not a dict
	c.evs = append(c.evs, sev{kind: "pkt", src: src, raw: []byte("d")})                          // too short
	c.evs = append(c.evs, sev{kind: "pkt", src: src, raw: r.bytes(1 + r.intn(60))})              // noise
	c.evs = append(c.evs, sev{kind: "pkt", src: src, raw: []byte("d1:ad2:id20:aaaaaaaaaaaaaaaaaaaae1:q4:ping1:t2:aa1:y1:qe"), size: 65536})
	c.evs = append(c.evs, sev{kind: "pkt", src: udp(src.IP, 0), raw: []byte("d1:ad2:id20:aaaaaaaaaaaaaaaaaaaae1:q4:ping1:t2:aa1:y1:qe")})
	c.evs = append(c.evs, sev{kind: "pkt", src: src, raw: []byte("d1:ad2:id20:aaaaaaaaaaaaaaaaaaaae1:q4:ping1:t2:aa1:y1:qeXYZ")}) // trailing bytes: used
	c.evs = append(c.evs, sev{kind: "pkt", src: src, raw: []byte("d1:q13:announce_peer1:t2:aa1:y1:qe")})
	c.evs = append(c.evs, sev{kind: "pkt", src: src, raw: []byte("d1:q3:put1:t2:aa1:y1:qe")})
	c.evs = append(c.evs, sev{kind: "pkt", src: src, raw: []byte("d1:q9:get_peers1:t2:aa1:y1:qe")})
	c.evs = append(c.evs, sev{kind: "pkt", src: src, raw: []byte("d1:eli201e1:xe1:t2:aa1:y1:ee")})
	c.evs = append(c.evs, sev{kind: "pkt", src: src, raw: []byte("d1:e3:bad1:t2:aa1:y1:ee")})
	c.evs = append(c.evs, sev{kind: "pkt", src: src, raw: []byte("d1:ad2:id20:aaaaaaaaaaaaaaaaaaaa2:roi1ee1:q4:ping1:t2:aa1:y1:qe")})
	// decoder quirks of the bencode library on live packets (DESIGN Appendix A): byte-level model and
	// server model are both exercised on them
	for _, raw := range []string{
		"d1:ad2:idl20:aaaaaaaaaaaaaaaaaaaaee1:q4:ping1:t2:aa1:y1:qe",                  // id as singleton list
		"d1:ad2:id20:aaaaaaaaaaaaaaaaaaaae1:q4:ping2:ro1:x1:t2:aa1:y1:qe",              // ro = any non-"0" text is true
		"d1:ad2:id25:aaaaaaaaaaaaaaaaaaaaXXXXXe1:q4:ping1:t2:aa1:y1:qe",                // long id truncated to 20
		"d1:ad2:id19:aaaaaaaaaaaaaaaaaaae1:q4:ping1:t2:aa1:y1:qe",                      // short id: rejected
		"d1:ad2:id20:aaaaaaaaaaaaaaaaaaaae1:q4:ping1:ti5e1:y1:qe",                      // t of wrong type: rejected
		"d1:ad2:id20:aaaaaaaaaaaaaaaaaaaae1:q4:ping1:t2:aa1:xd1:b0:1:a0:e1:y1:qe",      // unknown key with unsorted dict: rejected
		"d1:ad2:id20:aaaaaaaaaaaaaaaaaaaae1:q4:ping1:t2:aa1:xd1:a0:1:b0:e1:y1:qe",      // unknown key, sorted: accepted
		"d1:y1:q1:t2:aa1:q4:ping1:ad2:id20:aaaaaaaaaaaaaaaaaaaaee",                      // unsorted struct keys accepted
		"d1:ad2:id20:aaaaaaaaaaaaaaaaaaaa4:portli7ee9:info_hash20:bbbbbbbbbbbbbbbbbbbbe1:q9:get_peers1:t2:aa1:y1:qe",
		"d1:ad2:id20:aaaaaaaaaaaaaaaaaaaa4:want2:n4e1:q9:find_node1:t2:aa1:y1:qe",      // want as bare string: type error
		"d1:ad2:id20:aaaaaaaaaaaaaaaaaaaa6:target20:cccccccccccccccccccc4:wantl2:n42:n6ee1:q9:find_node1:t2:aa1:y1:qe",
		"ld1:ad2:id20:aaaaaaaaaaaaaaaaaaaae1:q4:ping1:t2:aa1:y1:qee",                   // list around the dict: fails the 'd' pre-check
		"d1:q4:ping1:t2:aa1:y1:q1:ad2:id20:aaaaaaaaaaaaaaaaaaaaed2:id20:bbbbbbbbbbbbbbbbbbbbee", // trailing value
	} {
		c.evs = append(c.evs, sev{kind: "pkt", src: randAddr(r, 0), raw: []byte(raw)})
	}
	c.evs = append(c.evs, ping(randAddr(r, 1)))
	zoned := udp([]byte{0xfe, 0x80, 0, 0, 0, 0, 0, 0, 0, 0, 0, 0, 0, 0, 0, byte(1 + r.intn(200))}, 1+r.intn(65535))
	zoned.Zone = "eth1"
	c.evs = append(c.evs, ping(zoned))
	c.evs = append(c.evs, qpkt(zoned, "find_node", "zf", &krpc.MsgArgs{ID: id, Target: root}))
	qid := 1
	c.evs = append(c.evs, sev{kind: "qstart", qid: qid, src: randAddr(r, 0), q: "ping", rated: true})
	if r.bool() {
		c.evs = append(c.evs, sev{kind: "close"})
		c.evs = append(c.evs, ping(src))
		c.evs = append(c.evs, sev{kind: "qstart", qid: 2, src: randAddr(r, 0), q: "ping", rated: true})
		c.evs = append(c.evs, sev{kind: "qend", qid: 1})
	}
	return c
}

func genBudget(r *rng, idx int) srvCase {
	c := srvCase{idx: idx, cfg: baseCfg(r, "budget")}
	c.cfg.budget = r.intn(7)
	c.cfg.wait = r.bool() // with the exact-budget limiter Wait fails at once when the budget is spent
	root := c.cfg.root
	qid := 0
	for i := 0; i < 14; i++ {
		src := randAddr(r, famOf(r))
		id := idInBucket(r, root, r.intn(160))
		switch r.intn(4) {
		case 0, 1:
			c.evs = append(c.evs, qpkt(src, []string{"ping", "find_node", "zzz", "get_peers"}[r.intn(4)], "f", &krpc.MsgArgs{ID: id}))
		case 2:
			qid++
			c.evs = append(c.evs, sev{kind: "qstart", qid: qid, src: src, q: "ping", rated: true})
		case 3:
			qid++
			c.evs = append(c.evs, sev{kind: "qstart", qid: qid, src: src, q: "ping", rated: false})
		}
	}
	return c
}


// ---------------------------------------------------------------- configuration lattice (C10 C11 C08)
// The write handlers under every combination of the two optional announce consumers (peer store,
// announce hook), with and without WaitToReply and a pass-through query hook: the token rules do not
// depend on what the application does with an accepted announce.
func cfgLattice(k int) func(*srvCfg) {
	return func(c *srvCfg) {
		c.ps = k&1 != 0
		c.cb = k&2 != 0
		c.wait = k&4 != 0
		if k&8 != 0 {
			c.veto = []string{"__no_such_method__"}
		}
	}
}

// the (peer store, hook) combinations other than the base one, each with varying wait / query hook
var latticePoints = []int{0, 1, 2, 4, 8 + 1, 4 + 2, 8 + 4, 8 + 2, 4 + 1, 8 + 4 + 3}

func genTokensLattice(r *rng, idx int) srvCase {
	return genTokensCfg(r, idx, cfgLattice(latticePoints[idx%len(latticePoints)]))
}

// the method x argument lattice on a node that tracks no peers at all (neither store nor hook)
func genMethodsBare(r *rng, idx int) srvCase {
	c := genMethods(r, idx)
	c.cfg.passive = false
	c.cfg.veto = nil
	c.cfg.ps = false
	c.cfg.cb = false
	c.cfg.wait = r.bool()
	return c
}

// ---------------------------------------------------------------- scenario: transaction-id collisions (C08 C07)
// Peers we have queries outstanding to send us their OWN queries carrying exactly our transaction ids
// (ids are small counters: two nodes talking to each other collide all the time), from the same
// address, from the other representation of the same IPv4 address, from neighbouring addresses, before
// and after the genuine reply, after a cancel. Each such query is answered like any other query and
// leaves our transaction alone; the genuine reply still completes it.
func genCollide(r *rng, idx int) srvCase {
	c := srvCase{idx: idx, cfg: baseCfg(r, "collide")}
	switch r.intn(8) {
	case 0:
		c.cfg.passive = true
	case 1:
		c.cfg.ps, c.cfg.cb = false, false
	case 2:
		c.cfg.wait = true
	}
	root := c.cfg.root
	type oq struct {
		id int
		d  speer
	}
	var dsts []speer
	for fam := 0; fam < 3; fam++ {
		dsts = append(dsts, speer{addr: randAddr(r, fam), id: idInBucket(r, root, r.intn(160))})
	}
	qid := 0
	var open []oq
	start := func(d speer) {
		qid++
		open = append(open, oq{qid, d})
		q := []string{"ping", "find_node", "get_peers"}[r.intn(3)]
		c.evs = append(c.evs, sev{kind: "qstart", qid: qid, src: d.addr, q: q, rated: r.intn(4) != 0, args: krpc.MsgArgs{Target: root, InfoHash: root}})
	}
	methods := []string{"ping", "ping", "find_node", "get_peers", "get", "announce_peer", "put", "zzz", ""}
	collide := func(o oq, variant int) {
		q := methods[r.intn(len(methods))]
		var a *krpc.MsgArgs
		if r.intn(4) != 0 {
			sid := o.d.id
			if r.intn(3) == 0 {
				sid = idInBucket(r, root, r.intn(160))
			}
			a = &krpc.MsgArgs{ID: sid, Want: wantChoices(r)}
			copy(a.Target[:], r.bytes(20))
			copy(a.InfoHash[:], r.bytes(20))
			if r.bool() {
				a.Token = string(r.bytes(r.intn(21)))
			}
			if r.bool() {
				p := 1 + r.intn(65535)
				a.Port = &p
			}
		}
		ro := r.intn(8) == 0
		otherPort := o.d.addr.Port%65535 + 1
		otherIP := randAddr(r, 0)
		e := sev{kind: "pkt", src: o.d.addr}
		e.dyn = func(st *srvState, e *sev) {
			t := st.qt[o.id]
			src := o.d.addr
			switch variant {
			case 4: // the same address in its other representation: the same transaction key
				if ip4 := src.IP.To4(); ip4 != nil {
					if len(src.IP) == 4 {
						src = udp(mapped(ip4), src.Port)
					} else {
						src = udp(ip4, src.Port)
					}
				}
			case 5:
				src = udp(src.IP, otherPort)
			case 6:
				src = otherIP
			case 7:
				t += "\x00"
			}
			e.src = src
			e.msg = &krpc.Msg{Q: q, Y: "q", T: t, A: a, ReadOnly: ro}
		}
		c.evs = append(c.evs, e)
	}
	reply := func(o oq, y string) {
		e := sev{kind: "pkt", src: o.d.addr}
		e.dyn = func(st *srvState, e *sev) {
			m := &krpc.Msg{Y: y, T: st.qt[o.id]}
			switch y {
			case "r":
				m.R = &krpc.Return{ID: o.d.id}
			case "e":
				m.E = &krpc.Error{Code: 202, Msg: "srv"}
			}
			e.msg = m
		}
		c.evs = append(c.evs, e)
	}
	// two queries outstanding to the first destination, one to each of the others
	start(dsts[0])
	start(dsts[0])
	start(dsts[1])
	start(dsts[2])
	for _, o := range open {
		collide(o, 0)
		collide(o, r.intn(8))
	}
	for steps := 0; len(open) > 0 && steps < 30; steps++ {
		k := r.intn(len(open))
		o := open[k]
		drop := func() { open = append(open[:k], open[k+1:]...) }
		switch x := r.intn(12); {
		case x < 6:
			collide(o, r.intn(8))
		case x < 9:
			// the genuine reply still finds the transaction; afterwards the id is just a stale string
			reply(o, []string{"r", "r", "r", "e", "x"}[r.intn(5)])
			drop()
			collide(o, 0)
		case x == 9:
			c.evs = append(c.evs, sev{kind: "qend", qid: o.id})
			drop()
			collide(o, r.intn(5))
		default:
			if len(open) < 4 {
				start(dsts[r.intn(len(dsts))])
				collide(open[len(open)-1], 0)
			}
		}
	}
	return c
}

// ---------------------------------------------------------------- scenario: slow application hook (C11 C10 C01)
// The peers scenario on a node whose OnAnnouncePeer hook does not return (an application handing
// announces to a busy worker): get_peers is asked while the hooks of accepted announces are still
// blocked, the hooks are released at some points of the history (event hookrel: no effect on the
// node) and block again afterwards.
func genPeersHook(r *rng, idx int) srvCase {
	c := srvCase{idx: idx, cfg: baseCfg(r, "peershook")}
	c.cfg.cbBlock = true
	c.cfg.wait = r.intn(3) == 0
	root := c.cfg.root
	var ihs [2][20]byte
	for i := range ihs {
		copy(ihs[i][:], r.bytes(20))
	}
	var ann []*net.UDPAddr
	for i := 0; i < 4; i++ {
		ann = append(ann, randAddr(r, famOf(r)))
	}
	ann = append(ann, udp(ann[0].IP, 1+r.intn(65535)))
	announce := func(src *net.UDPAddr, ih [20]byte, goodToken bool) {
		id := idInBucket(r, root, r.intn(160))
		c.evs = append(c.evs, qpkt(src, "get_peers", "t", &krpc.MsgArgs{ID: id, InfoHash: ih}))
		port := []int{1, 80, 6881, 65535, 1 + r.intn(65535)}[r.intn(5)]
		implied := r.intn(3) == 0
		withPort := !implied || r.bool()
		e := sev{kind: "pkt", src: src}
		e.dyn = func(st *srvState, e *sev) {
			a := &krpc.MsgArgs{ID: id, InfoHash: ih, Token: st.lastTok[ipKey(src.IP)], ImpliedPort: implied}
			if !goodToken {
				a.Token = "x" + a.Token
			}
			if withPort {
				a.Port = &port
			}
			e.msg = &krpc.Msg{Q: "announce_peer", Y: "q", T: "ap", A: a}
		}
		c.evs = append(c.evs, e)
	}
	ask := func(ih [20]byte) {
		c.evs = append(c.evs, qpkt(randAddr(r, famOf(r)), "get_peers", "gq", &krpc.MsgArgs{ID: idInBucket(r, root, r.intn(160)), InfoHash: ih, Want: wantChoices(r)}))
	}
	for step := 0; step < 12; step++ {
		ih := ihs[r.intn(len(ihs))]
		switch x := r.intn(10); {
		case x < 6:
			announce(ann[r.intn(len(ann))], ih, r.intn(6) != 0)
			if r.bool() {
				ask(ih)
			}
		case x < 9:
			ask(ih)
		default:
			c.evs = append(c.evs, sev{kind: "hookrel"})
		}
	}
	// every infohash while the hooks are blocked, and again after their release
	for _, ih := range ihs {
		c.evs = append(c.evs, qpkt(randAddr(r, 0), "get_peers", "gf", &krpc.MsgArgs{ID: idInBucket(r, root, 5), InfoHash: ih, Want: []krpc.Want{"n4", "n6"}}))
	}
	c.evs = append(c.evs, sev{kind: "hookrel"})
	for _, ih := range ihs {
		c.evs = append(c.evs, qpkt(randAddr(r, 1), "get_peers", "gf", &krpc.MsgArgs{ID: idInBucket(r, root, 5), InfoHash: ih, Want: []krpc.Want{"n4", "n6"}}))
	}
	return c
}

// ---------------------------------------------------------------- scenario: special networks under the security extension
// With BEP 42 enforced, which addresses are exempt is part of who gets into the table: 10/8, 172.16/12, 192.168/16,
// 169.254/16, 127/8, fe80::/10 and ::1 are, their neighbours and every other "private looking" range (fc00::/7 unique
// local, fec0::/10 site local, 100.64/10, 192.0.0/24, 198.18/15, 0/8 ...) are not. Contacts from both sides of every
// boundary, with ids that are / are not secure for their address, as queriers, as responders and through AddNode.
func genSecNets(r *rng, idx int) srvCase {
	c := srvCase{idx: idx, cfg: baseCfg(r, "secnets")}
	c.cfg.nosec = false
	root := c.cfg.root
	v4 := []string{"10.0.0.1", "10.255.255.254", "9.255.255.255", "11.0.0.1", "172.16.0.1", "172.31.255.254", "172.15.255.255", "172.32.0.1",
		"192.168.0.1", "192.168.255.254", "192.167.255.255", "192.169.0.1", "169.254.0.1", "169.254.255.254", "169.253.255.255", "169.255.0.1",
		"127.0.0.1", "127.255.255.254", "126.255.255.255", "128.0.0.1", "100.64.0.1", "192.0.0.8", "198.18.0.1", "0.0.0.1", "224.0.0.1", "203.0.113.7"}
	v6 := []string{"fe80::1", "febf:ffff::1", "fec0::1", "fe7f:ffff::1", "fc00::1", "fd00:1234::1", "fdff:ffff::2", "fbff::1", "fe00::1", "::1", "::2",
		"2001:db8::1", "64:ff9b::a00:1", "ff02::1", "2002:a00:1::1"}
	var peers []speer
	qid := 0
	for i := 0; i < 14; i++ {
		var ip net.IP
		switch r.intn(5) {
		case 0, 1:
			ip = net.ParseIP(v4[r.intn(len(v4))]).To4()
		case 2:
			ip = mapped(net.ParseIP(v4[r.intn(len(v4))]).To4())
		default:
			ip = net.ParseIP(v6[r.intn(len(v6))]).To16()
		}
		p := speer{addr: udp(ip, 1+r.intn(65535)), id: idInBucket(r, root, r.intn(6))}
		if r.intn(3) == 0 {
			kid := krpc.ID(p.id)
			dht.SecureNodeId(&kid, p.addr.IP)
			p.id = kid
		}
		peers = append(peers, p)
	}
	client := speer{addr: randAddr(r, 0), id: idInBucket(r, root, r.intn(160))}
	for _, p := range peers {
		switch r.intn(4) {
		case 0:
			c.evs = append(c.evs, qpkt(p.addr, "ping", string(r.bytes(2)), argsID(p.id)))
		case 1:
			c.evs = append(c.evs, makeGood(&qid, p, nil)...)
		case 2:
			c.evs = append(c.evs, sev{kind: "addnode", src: p.addr, id: p.id})
		default:
			var tg [20]byte
			copy(tg[:], r.bytes(20))
			c.evs = append(c.evs, qpkt(p.addr, "find_node", string(r.bytes(2)), &krpc.MsgArgs{ID: p.id, Target: tg, Want: wantChoices(r)}))
		}
		if r.intn(4) == 0 {
			c.evs = append(c.evs, qpkt(client.addr, "find_node", string(r.bytes(2)), &krpc.MsgArgs{ID: client.id, Target: root, Want: []krpc.Want{"n4", "n6"}}))
		}
	}
	c.evs = append(c.evs, qpkt(client.addr, "find_node", "fz", &krpc.MsgArgs{ID: client.id, Target: root, Want: []krpc.Want{"n4", "n6"}}))
	return c
}

// ---------------------------------------------------------------- scenario: get_peers over peer families (C09 C11)
// What a get_peers reply carries is decided by what is left of the stored peers AFTER the BEP 32 filter: values when
// some remain, else the closest good contacts of the families the requester wants. The whole product is walked on a
// node with a peer store: info-hashes whose stored peers are {none, 4-byte IPv4 only, IPv6 only, v4-mapped 16-byte only,
// IPv4 + IPv6, IPv4 + its v4-mapped twin + IPv6, IPv6 only again} x requester address {IPv4, IPv6, v4-mapped} x want {absent, n4, n6,
// n4 n6, n6 n4, junk, junk n6} x a table holding good contacts of both families / IPv4 only / IPv6 only (plus
// questionable ones of each family, which are never listed), with the info-hashes spread over the buckets. Afterwards
// (some cases) all contacts age out of "good", a few come back, and part of the product is asked again.
var peerFamWants = [][]krpc.Want{nil, {"n4"}, {"n6"}, {"n4", "n6"}, {"n6", "n4"}, {"junk"}, {"junk", "n6"}}

func genPeerFam(r *rng, idx int) srvCase {
	c := srvCase{idx: idx, cfg: baseCfg(r, "peerfam")}
	variant := r.intn(1 << 16)
	tableKind := idx % 4 // 0, 3: both families; 1: IPv4 contacts only; 2: IPv6 contacts only
	c.cfg.cb = variant&4 != 0
	c.cfg.wait = variant&8 != 0
	if variant&16 != 0 {
		// a peer store that answers "no peers" with an empty, non-nil slice
		c.cfg.psEmpty = true
		c.cfg.scenario = "peerfam-emptyslice"
	}
	root := c.cfg.root
	qid := 0
	lowBuckets := []int{0, 0, 1, 2}
	var good4, good6 []speer
	contact := func(fam int, answered bool) speer {
		p := speer{addr: randAddr(r, fam), id: idInBucket(r, root, lowBuckets[r.intn(len(lowBuckets))])}
		if answered {
			c.evs = append(c.evs, makeGood(&qid, p, nil)...)
		} else {
			c.evs = append(c.evs, qpkt(p.addr, "ping", string(r.bytes(2)), argsID(p.id)))
		}
		return p
	}
	// the routing table first (while there is room in every bucket), then the announces
	if tableKind != 2 {
		for i, n := 0, 2+r.intn(4); i < n; i++ {
			good4 = append(good4, contact(0, true))
		}
		if r.bool() {
			good4 = append(good4, contact(2, true)) // a v4-mapped source is an IPv4 contact
		}
	}
	if tableKind != 1 {
		for i, n := 0, 2+r.intn(4); i < n; i++ {
			good6 = append(good6, contact(1, true))
		}
	}
	contact(0, false)
	contact(1, false)
	// info-hash classes
	type ihClass struct {
		ih   [20]byte
		fams []int // address form of each announcer: 0 IPv4 4-byte, 1 IPv6, 2 v4-mapped, 3 mapped twin of the previous IPv4 one
	}
	ihBuckets := []int{2, 3, 8, 40, 100, 159}
	mkIH := func() (ih [20]byte) {
		switch x := r.intn(10); {
		case x == 0:
			return root // the node's own id as info-hash: the walk starts at the last bucket
		case x <= 2:
			return idInBucket(r, root, r.intn(2)) // a far info-hash: nearer buckets are not consulted at all
		default:
			return idInBucket(r, root, ihBuckets[r.intn(len(ihBuckets))])
		}
	}
	rep := func(fam, n int) (l []int) {
		for i := 0; i < n; i++ {
			l = append(l, fam)
		}
		return
	}
	classes := []ihClass{
		{mkIH(), nil},
		{mkIH(), rep(0, 1+r.intn(3))},
		{mkIH(), rep(1, 1+r.intn(3))},
		{mkIH(), rep(2, 1+r.intn(2))},
		{mkIH(), append(rep(0, 1+r.intn(2)), rep(1, 1+r.intn(2))...)},
		{mkIH(), []int{1, 0, 3, 2}},
		{mkIH(), rep(1, 1+r.intn(9))}, // IPv6 only once more: another bucket, up to 9 peers
	}
	for k := 1; k < len(classes); k++ {
		for classes[k].ih == classes[0].ih {
			classes[k].ih = idInBucket(r, root, ihBuckets[r.intn(len(ihBuckets))])
		}
	}
	announce := func(src *net.UDPAddr, ih [20]byte) {
		id := idInBucket(r, root, 3+r.intn(150))
		c.evs = append(c.evs, qpkt(src, "get_peers", "t", &krpc.MsgArgs{ID: id, InfoHash: ih}))
		port := []int{1, 80, 6881, 65535, 1 + r.intn(65535)}[r.intn(5)]
		implied := r.intn(4) == 0
		e := sev{kind: "pkt", src: src}
		e.dyn = func(st *srvState, e *sev) {
			a := &krpc.MsgArgs{ID: id, InfoHash: ih, Token: st.lastTok[ipKey(src.IP)], ImpliedPort: implied, Port: &port}
			e.msg = &krpc.Msg{Q: "announce_peer", Y: "q", T: "ap", A: a}
		}
		c.evs = append(c.evs, e)
	}
	for _, cl := range classes {
		var last *net.UDPAddr
		for _, fam := range cl.fams {
			src := randAddr(r, fam%3)
			if fam == 3 && last != nil {
				src = udp(mapped(last.IP.To4()), 1+r.intn(65535))
			}
			if fam == 0 {
				last = src
			}
			announce(src, cl.ih)
		}
	}
	// the requesters: one address of each form (fixed ids: they take three table slots, far from the contacts' buckets)
	clients := []speer{
		{addr: randAddr(r, 0), id: idInBucket(r, root, 4+r.intn(150))},
		{addr: randAddr(r, 1), id: idInBucket(r, root, 4+r.intn(150))},
		{addr: randAddr(r, 2), id: idInBucket(r, root, 4+r.intn(150))},
	}
	type ask struct{ cl, who, want int }
	var sweep []ask
	for cl := range classes {
		for who := range clients {
			for w := range peerFamWants {
				sweep = append(sweep, ask{cl, who, w})
			}
		}
	}
	for i := range sweep {
		j := i + r.intn(len(sweep)-i)
		sweep[i], sweep[j] = sweep[j], sweep[i]
	}
	emitAsk := func(a ask) {
		args := &krpc.MsgArgs{ID: clients[a.who].id, InfoHash: classes[a.cl].ih, Want: peerFamWants[a.want]}
		c.evs = append(c.evs, qpkt(clients[a.who].addr, "get_peers", string(r.bytes(1+r.intn(3))), args))
	}
	for _, a := range sweep {
		emitAsk(a)
	}
	if variant&32 != 0 {
		// every contact ages out of "good": values as before, no node lists any more; then one contact of each family
		// is heard from again (a query from a contact that answered before makes it good again)
		c.evs = append(c.evs, sev{kind: "adv", adv: []time.Duration{16 * time.Minute, 31 * time.Minute}[r.intn(2)]})
		for i := 0; i < 10; i++ {
			emitAsk(sweep[r.intn(len(sweep))])
		}
		if len(good4) > 0 {
			p := good4[r.intn(len(good4))]
			c.evs = append(c.evs, qpkt(p.addr, "ping", "bk", argsID(p.id)))
		}
		for i := 0; i < 8; i++ {
			emitAsk(sweep[r.intn(len(sweep))])
		}
		if len(good6) > 0 {
			p := good6[r.intn(len(good6))]
			c.evs = append(c.evs, qpkt(p.addr, "ping", "bk", argsID(p.id)))
		}
		for i := 0; i < 10; i++ {
			emitAsk(sweep[r.intn(len(sweep))])
		}
	}
	return c
}

func genServerCases(seed uint64, tier string) []srvCase {
	r := &rng{s: seed ^ 0x5e7e7}
	mult := 1
	if tier == "thorough" {
		mult = 12
	}
	var cases []srvCase
	add := func(f func(*rng, int) srvCase, n int) {
		for i := 0; i < n*mult; i++ {
			idx := len(cases)
			cases = append(cases, f(r.sub(idx), idx))
		}
	}
	add(func(r *rng, i int) srvCase { return genTable(r, i, 60+r.intn(80)) }, 10)
	add(genMethods, 6)
	add(genTokens, 8)
	add(genPeers, 5)
	add(genQueries, 6)
	add(genBlock, 4)
	add(genMisc, 3)
	add(genBudget, 4)
	add(genBep44, 8)
	// appended after the older scenarios so that their cases keep their index and PRNG stream
	add(genCollide, 5)
	add(genTokensLattice, 10)
	add(genMethodsBare, 2)
	add(genPeersHook, 4)
	add(genSecNets, 4)
	add(genPeerFam, 4)
	// server_gen_cfg.go
	add(genAutoIDTable, 4)
	add(genAutoIDPeerFam, 1)
	add(genAutoIDMethods, 1)
	add(roVariant(func(r *rng, i int) srvCase { return genTable(r, i, 50+r.intn(40)) }), 1)
	add(roVariant(genQueries), 1)
	add(roVariant(genCollide), 1)
	add(genRoDirected, 1)
	add(genIntArgs, 3)
	add(genPutReject, 3)
	if tier == "thorough" {
		add(roVariant(genBlock), 1)
		add(roVariant(genSecNets), 1)
	}
	// server_gen_admit.go (appended last: every older case keeps its index and PRNG stream in both tiers)
	add(genVeto, 4)
	add(genClosest, 6)
	return cases
}
