package main

// Oracle-only part of the server engine, next to the sibling nodes of srv_sibling.go: the application
// keeps using the ServerConfig value it handed to NewServer. NewServer takes a *ServerConfig, so the
// value stays in the caller's hands: it may change any field afterwards - typically to start a
// second node from the same value (another socket, no security extension on the LAN side, a passive
// node, other hooks, another peer store, another limiter) - or just reuse the struct for something
// else. A node's configuration is what it was given at construction: whatever the caller does to the
// value later, the first node keeps
//
//   C06  enforcing / not enforcing the security extension: after the change a sender whose id is not
//        valid for its (public) address is still turned away by an enforcing node, and still admitted
//        by a node that does not enforce; a sender with a valid id is admitted by both
//   C19  passive mode (no reply to any query, own queries carry ro=1), its blocklist
//   C08  answering when it is not passive and its own query hook does not veto (a vetoing hook put into
//        the value later, a limiter without budget put into the value later, a blocklist put into the
//        value later must not silence it), consulting its own hook, answering with its own id
//   C11  its peer store and its announce hook: announces accepted after the change come back from
//        get_peers next to those accepted before
//   C20  its send budget (an exact-budget limiter stays in force) and waiting for budget when configured
//        to wait
//
// Every field the value has is changed (or a random subset of them), with and without building a
// sibling node from the changed value; expectations are computed from the configuration the first
// node was BUILT with, never from what it does. Absence is checked after a fence and a short pause
// (a late reply can only be missed, not invented); presence with generous time-outs.

import (
	"flag"
	"fmt"
	"net"
	"runtime"
	"sync/atomic"
	"time"

	"github.com/anacrolix/log"
	"github.com/anacrolix/torrent/bencode"
	"github.com/anacrolix/torrent/iplist"
	"github.com/anacrolix/torrent/metainfo"
	"golang.org/x/time/rate"

	dht "github.com/anacrolix/dht/v2"
	"github.com/anacrolix/dht/v2/bep44"
	"github.com/anacrolix/dht/v2/krpc"
)

type crProfile struct {
	nosec, passive bool
	hook           int // 0 none, 1 observes, 2 vetoes find_node
	annHook, ps    bool
	wait           bool
	lim            int // 0 unlimited, 1 exact budget (rate 0, burst 3), 2 one datagram per 150 ms
	bl             bool
}

func (p crProfile) String() string {
	return fmt.Sprintf("nosec=%d passive=%d hook=%d annhook=%d ps=%d wait=%d lim=%d bl=%d", b2i(p.nosec), b2i(p.passive), p.hook, b2i(p.annHook), b2i(p.ps), b2i(p.wait), p.lim, b2i(p.bl))
}

// the fields of the value that are changed after NewServer returned
var crFields = []string{"NoSecurity", "Passive", "OnQuery", "OnAnnouncePeer", "PeerStore", "WaitToReply", "SendLimiter", "IPBlocklist",
	"DefaultWant", "NodeId", "PublicIP", "QueryResendDelay", "StartingNodes", "Store", "Exp", "Logger"}

func crPeek(c *fakeConn) []fwrite {
	c.mu.Lock()
	defer c.mu.Unlock()
	return append([]fwrite(nil), c.writes...)
}

// the reply (y = r or e) with transaction id t, if it has been written
func crReply(c *fakeConn, t string) (*krpc.Msg, *net.UDPAddr) {
	for _, w := range crPeek(c) {
		if m, ok := decodeLikeServer(w.data); ok && m.T == t && (m.Y == "r" || m.Y == "e") {
			return m, w.addr
		}
	}
	return nil, nil
}

func crAwait(c *fakeConn, t string, d time.Duration) (*krpc.Msg, *net.UDPAddr) {
	deadline := time.Now().Add(d)
	for {
		if m, a := crReply(c, t); m != nil {
			return m, a
		}
		if time.Now().After(deadline) {
			return nil, nil
		}
		time.Sleep(200 * time.Microsecond)
	}
}

type crEverything struct{}

func (crEverything) Lookup(net.IP) (iplist.Range, bool) {
	return iplist.Range{Description: "everything"}, true
}
func (crEverything) NumRanges() int { return 1 }

func crTier() string {
	if f := flag.Lookup("tier"); f != nil {
		return f.Value.String()
	}
	return "quick"
}

// when set, configReuseCase changes this one field of the caller's config value and nothing else
var crOnly string

// (profile the first server is built with, the single field changed afterwards)
var crSingles = []struct {
	p crProfile
	f string
}{
	{crProfile{nosec: true, passive: true}, "Passive"},
	{crProfile{nosec: true, ps: true}, "Passive"},
	{crProfile{nosec: false, ps: true}, "NoSecurity"},
	{crProfile{nosec: true, hook: 1, ps: true}, "OnQuery"},
	{crProfile{nosec: true, lim: 1}, "SendLimiter"},
	{crProfile{nosec: true, bl: true}, "IPBlocklist"},
	{crProfile{nosec: false, passive: true, ps: true, annHook: true}, "Passive"},
	{crProfile{nosec: true, ps: true, annHook: true}, "PeerStore"},
	{crProfile{nosec: true, ps: true, annHook: true}, "OnAnnouncePeer"},
	{crProfile{nosec: true, wait: true, lim: 2}, "WaitToReply"},
	{crProfile{nosec: true}, "IPBlocklist"},
	{crProfile{nosec: false, passive: true}, "NoSecurity"},
}

func configReuseCases(seed uint64, n int) {
	for i := 0; i < 2; i++ {
		sg := crSingles[(2*n+i)%len(crSingles)]
		crOnly = sg.f
		configReuseCase(seed, n, 100+i, sg.p, (n+i)%2 == 1, false)
		crOnly = ""
	}
	// a fixed walk through the configurations that matter most, then random ones
	fixed := []crProfile{
		{nosec: false, hook: 1, ps: true, annHook: true},                // enforcing, answering
		{nosec: true, ps: true},                                         // not enforcing
		{nosec: false, passive: true, hook: 1},                          // enforcing, passive
		{nosec: true, lim: 1, hook: 2},                                  // exact budget, vetoing hook
		{nosec: false, lim: 2, wait: true, bl: true},                    // waits for budget, blocklist
		{nosec: true, passive: true, bl: true, ps: true, annHook: true}, // passive, not enforcing
		{nosec: false, hook: 2, ps: true, bl: true, wait: true},         // vetoing hook
		{nosec: false, lim: 1, ps: false, annHook: true, wait: true},    // exact budget, enforcing
		{nosec: true, hook: 1, annHook: true, ps: true, wait: true},     //
		{nosec: false, ps: true, annHook: false, hook: 0, bl: false},    // plain enforcing
		{nosec: true, lim: 2, wait: true, hook: 1},                      //
		{nosec: false, passive: true, ps: true, annHook: true, lim: 0},  //
	}
	per := 2
	extra := 1
	if crTier() == "thorough" {
		extra = 12
	}
	k := 0
	for i := 0; i < per; i++ {
		p := fixed[(n*per+i)%len(fixed)]
		configReuseCase(seed, n, k, p, (n+i)%2 == 0, true)
		k++
	}
	r := (&rng{s: seed ^ 0xc0f19e}).sub(n)
	for i := 0; i < extra; i++ {
		p := crProfile{nosec: r.bool(), passive: r.intn(4) == 0, hook: r.intn(3), annHook: r.bool(), ps: r.intn(3) != 0, wait: r.bool(), lim: []int{0, 0, 0, 1, 2}[r.intn(5)], bl: r.bool()}
		if p.lim == 2 {
			p.wait = true
		}
		configReuseCase(seed, n, k, p, r.bool(), false)
		k++
	}
}

func configReuseCase(seed uint64, n, k int, A crProfile, sibling, all bool) {
	r := (&rng{s: seed ^ 0xc0f19f}).sub(n*64 + k)
	tag := fmt.Sprintf("%d.%d", n, k)
	// ---- the configuration the first node is built with
	var hookA, hookB, annA, annB int64
	psA, psB := &recPeerStore{}, &recPeerStore{}
	publicIP := net.IPv4(198, 51, 100, byte(1+r.intn(200))).To4()
	var id1 krpc.ID
	copy(id1[:], r.bytes(20))
	if !A.nosec {
		dht.SecureNodeId(&id1, publicIP)
	}
	blockedIP := net.IP{203, 0, 113, byte(1 + r.intn(250))}
	conn1 := newFakeConn()
	conn1.local = &net.UDPAddr{IP: net.IPv4(127, 0, 0, 1), Port: 4400 + n}
	budget := 3
	cfg := &dht.ServerConfig{
		NodeId:           id1,
		Conn:             conn1,
		Passive:          A.passive,
		WaitToReply:      A.wait,
		NoSecurity:       A.nosec,
		PublicIP:         publicIP,
		StartingNodes:    func() ([]dht.Addr, error) { return nil, nil },
		QueryResendDelay: func() time.Duration { return 8 * time.Millisecond },
		Logger:           log.NewLogger().FilterLevel(log.Critical),
		DefaultWant:      []krpc.Want{krpc.WantNodes},
	}
	switch A.hook {
	case 1:
		cfg.OnQuery = func(q *krpc.Msg, _ net.Addr) bool { atomic.AddInt64(&hookA, 1); return true }
	case 2:
		cfg.OnQuery = func(q *krpc.Msg, _ net.Addr) bool { atomic.AddInt64(&hookA, 1); return q.Q != "find_node" }
	}
	if A.annHook {
		cfg.OnAnnouncePeer = func(metainfo.Hash, net.IP, int, bool) { atomic.AddInt64(&annA, 1) }
	}
	if A.ps {
		cfg.PeerStore = psA
	}
	switch A.lim {
	case 0:
		cfg.SendLimiter = rate.NewLimiter(rate.Inf, 1)
	case 1:
		cfg.SendLimiter = rate.NewLimiter(0, budget)
	case 2:
		cfg.SendLimiter = rate.NewLimiter(rate.Every(150*time.Millisecond), 1)
	}
	if A.bl {
		cfg.IPBlocklist = blockOf(blockedIP)
	}
	g0 := runtime.NumGoroutine()
	s1, err := dht.NewServer(cfg)
	if err != nil {
		emit("# config reuse %s: NewServer: %v", tag, err)
		return
	}
	conns := []*fakeConn{conn1}
	srvs := []*dht.Server{s1}
	// inject tells that a datagram has been processed by the serve loop asking for the next one: the loop
	// must be waiting for its first datagram before the first inject
	for dl := time.Now().Add(5 * time.Second); atomic.LoadInt64(&conn1.reads) == 0 && time.Now().Before(dl); {
		time.Sleep(20 * time.Microsecond)
	}
	defer func() {
		for i := range srvs {
			srvs[i].Close()
			conns[i].Close()
		}
		// the goroutines of this case end before the next baseline is taken
		for dl := time.Now().Add(2 * time.Second); runtime.NumGoroutine() > g0 && time.Now().Before(dl); {
			time.Sleep(100 * time.Microsecond)
		}
	}()
	ctx := fmt.Sprintf("case=%s built-with(%s)", tag, A)
	if s1.ID() != [20]byte(id1) {
		oracle("C08", "node-id-differs-from-configured:config-reuse", "%s configured=%x id=%x", ctx, id1, s1.ID())
	}
	pub := func() *net.UDPAddr { return nfAddr(r, []int{0, 0, 1, 2}[r.intn(4)]) }
	var tn int
	tid := func(p string) string { tn++; return fmt.Sprintf("%s%d", p, tn) }
	send := func(src *net.UDPAddr, m krpc.Msg) bool {
		return conn1.inject(bencode.MustMarshal(m), src, 5*time.Second)
	}
	var ih [20]byte
	copy(ih[:], r.bytes(20))
	// ---- before the change: tokens for two announcers, one accepted announce
	type announcer struct {
		addr  *net.UDPAddr
		id    [20]byte
		token string
		port  int
		ok    bool
	}
	var anns []*announcer
	peers := A.ps && !A.passive && A.lim == 0
	if peers {
		for i := 0; i < 2; i++ {
			an := &announcer{addr: pub(), port: 1000 + r.intn(60000)}
			copy(an.id[:], r.bytes(20))
			t := tid("g")
			if send(an.addr, krpc.Msg{Q: "get_peers", Y: "q", T: t, A: &krpc.MsgArgs{ID: an.id, InfoHash: ih}}) {
				if m, _ := crAwait(conn1, t, 3*time.Second); m != nil && m.R != nil && m.R.Token != nil {
					an.token, an.ok = *m.R.Token, true
				}
			}
			anns = append(anns, an)
		}
		if an := anns[0]; an.ok {
			t := tid("a")
			send(an.addr, krpc.Msg{Q: "announce_peer", Y: "q", T: t, A: &krpc.MsgArgs{ID: an.id, InfoHash: ih, Token: an.token, Port: &an.port}})
			if m, _ := crAwait(conn1, t, 3*time.Second); m == nil {
				an.ok = false
			}
		}
	}
	if peers && A.annHook && anns[0].ok { // the hook of the first announce runs in a goroutine of its own: let it finish
		deadline := time.Now().Add(3 * time.Second)
		for atomic.LoadInt64(&annA) < 1 && time.Now().Before(deadline) {
			time.Sleep(200 * time.Microsecond)
		}
	}
	hookBefore := atomic.LoadInt64(&hookA)
	annBefore := atomic.LoadInt64(&annA)
	// ---- the caller goes on using its value
	changed := map[string]bool{}
	for _, f := range crFields {
		changed[f] = (all || r.intn(2) == 0) && crOnly == ""
	}
	if crOnly != "" {
		// one field alone: the effect of a change is not masked by the others (a hook that vetoes everything or an
		// exhausted limiter would hide a node that stopped being passive)
		changed[crOnly] = true
	} else if !all { // at least one of the settings a node consults while it runs
		run := []string{"NoSecurity", "Passive", "OnQuery", "OnAnnouncePeer", "PeerStore", "WaitToReply", "SendLimiter"}
		changed[run[r.intn(len(run))]] = true
	}
	if changed["NoSecurity"] {
		cfg.NoSecurity = !A.nosec
	}
	if changed["Passive"] {
		cfg.Passive = !A.passive
	}
	if changed["OnQuery"] {
		cfg.OnQuery = func(*krpc.Msg, net.Addr) bool { atomic.AddInt64(&hookB, 1); return false } // vetoes everything
		if A.hook != 0 && r.intn(3) == 0 {
			cfg.OnQuery = nil
		}
	}
	if changed["OnAnnouncePeer"] {
		cfg.OnAnnouncePeer = func(metainfo.Hash, net.IP, int, bool) { atomic.AddInt64(&annB, 1) }
		if r.intn(3) == 0 {
			cfg.OnAnnouncePeer = nil
		}
	}
	if changed["PeerStore"] {
		cfg.PeerStore = psB
		if r.intn(2) == 0 {
			cfg.PeerStore = nil
		}
	}
	if changed["WaitToReply"] {
		cfg.WaitToReply = !A.wait
	}
	if changed["SendLimiter"] {
		if A.lim == 0 {
			cfg.SendLimiter = rate.NewLimiter(0, 0) // no budget at all
		} else {
			cfg.SendLimiter = rate.NewLimiter(rate.Inf, 1)
		}
	}
	if changed["IPBlocklist"] {
		if A.bl {
			cfg.IPBlocklist = nil
		} else {
			cfg.IPBlocklist = crEverything{}
		}
	}
	if changed["DefaultWant"] {
		cfg.DefaultWant = []krpc.Want{krpc.WantNodes6, krpc.WantNodes}
	}
	if changed["NodeId"] {
		cfg.NodeId = krpc.ID{}
		if r.bool() {
			copy(cfg.NodeId[:], r.bytes(20))
		}
	}
	if changed["PublicIP"] {
		cfg.PublicIP = net.IPv4(192, 0, 2, byte(1+r.intn(200))).To4()
	}
	if changed["QueryResendDelay"] {
		cfg.QueryResendDelay = func() time.Duration { return 5 * time.Second }
	}
	if changed["StartingNodes"] {
		cfg.StartingNodes = func() ([]dht.Addr, error) { return nil, fmt.Errorf("no starting nodes") }
	}
	if changed["Store"] {
		cfg.Store = bep44.NewMemory()
	}
	if changed["Exp"] {
		cfg.Exp = time.Nanosecond
	}
	if changed["Logger"] {
		cfg.Logger = log.NewLogger("other").FilterLevel(log.Critical)
	}
	if sibling {
		conn2 := newFakeConn()
		conn2.local = &net.UDPAddr{IP: net.IPv4(127, 0, 0, 1), Port: 4500 + n}
		cfg.Conn = conn2
		if cfg.NodeId == id1 {
			cfg.NodeId = krpc.ID{}
		}
		s2, err := dht.NewServer(cfg)
		if err != nil {
			emit("# config reuse %s: sibling NewServer: %v", tag, err)
		} else {
			conns = append(conns, conn2)
			srvs = append(srvs, s2)
		}
	}
	var chg []string
	for _, f := range crFields {
		if changed[f] {
			chg = append(chg, f)
		}
	}
	ctx = fmt.Sprintf("%s changed-later=%v sibling=%d", ctx, chg, b2i(sibling))
	inTable := func(id [20]byte, addr *net.UDPAddr) bool {
		var nodes []dht.VerifNode
		guard("VerifTableSnapshot", ctx, func() { nodes, _ = s1.VerifTableSnapshot() })
		for _, nd := range nodes {
			if nd.Id == id && nd.Port == addr.Port && net.IP(nd.IP).Equal(addr.IP) {
				return true
			}
		}
		return false
	}
	if s1.ID() != [20]byte(id1) {
		oracle("C08", "node-id-changed-with-the-callers-config-value", "%s id=%x built-with=%x", ctx, s1.ID(), id1)
	}
	// ---- C06: senders with an id that is / is not valid for their address
	type probe struct {
		addr   *net.UDPAddr
		id     [20]byte
		t      string
		secure bool
	}
	var pings []probe
	npings := 2
	if A.lim == 1 {
		npings = budget + 3
	}
	if A.lim == 2 {
		npings = 3
	}
	for i := 0; i < npings; i++ {
		addr := pub()
		secure := i%2 == 1
		pings = append(pings, probe{addr: addr, id: nfID(r, id1, addr, secure, -1), t: tid("p"), secure: secure})
	}
	for _, p := range pings {
		if !send(p.addr, krpc.Msg{Q: "ping", Y: "q", T: p.t, A: &krpc.MsgArgs{ID: p.id}}) {
			emit("# config reuse %s: ping not taken", tag)
			return
		}
		// the handler has run to the end: the sender has been considered for the table
		in := inTable(p.id, p.addr)
		valid := dht.NodeIdSecure(p.id, p.addr.IP)
		switch {
		case !A.nosec && !valid && in:
			oracle("C06", "sender-with-invalid-id-admitted:enforcing-node-after-config-reuse", "%s sender=%s id=%x", ctx, p.addr, p.id)
		case (A.nosec || valid) && !in:
			oracle("C06", "eligible-sender-not-admitted:after-config-reuse", "%s sender=%s id=%x id-valid-for-address=%v", ctx, p.addr, p.id, valid)
		}
	}
	if A.hook != 0 {
		if got := atomic.LoadInt64(&hookA) - hookBefore; got != int64(len(pings)) {
			oracle("C08", "own-query-hook-not-consulted:after-config-reuse", "%s queries=%d hook-calls=%d calls-of-the-hook-set-later=%d", ctx, len(pings), got, atomic.LoadInt64(&hookB))
		}
	}
	// ---- replies to those pings
	fence := func() { // a datagram that is not KRPC: processed after everything injected before it
		conn1.inject([]byte("x"), pub(), 3*time.Second)
	}
	countReplies := func() (n int) {
		for _, p := range pings {
			if m, to := crReply(conn1, p.t); m != nil {
				n++
				if m.Y == "r" && m.R != nil && m.R.ID != id1 {
					oracle("C08", "response-without-own-id:after-config-reuse", "%s r.id=%x own=%x", ctx, m.R.ID, id1)
				}
				if to == nil || to.String() != p.addr.String() {
					oracle("C08", "reply-not-to-query-source:after-config-reuse", "%s to=%v source=%s", ctx, to, p.addr)
				}
			}
		}
		return
	}
	switch {
	case A.passive:
		fence()
		time.Sleep(40 * time.Millisecond)
		if got := countReplies(); got != 0 {
			oracle("C19", "passive-node-replied:after-config-reuse", "%s pings=%d replies=%d", ctx, len(pings), got)
		}
	case A.lim == 1:
		deadline := time.Now().Add(3 * time.Second)
		for countReplies() < budget && time.Now().Before(deadline) {
			time.Sleep(time.Millisecond)
		}
		fence()
		time.Sleep(40 * time.Millisecond)
		got := countReplies()
		if got > budget || len(crPeek(conn1)) > budget {
			oracle("C20", "send-budget-exceeded:after-config-reuse", "%s exact-budget=%d pings=%d replies=%d datagrams=%d", ctx, budget, len(pings), got, len(crPeek(conn1)))
		}
		if got < budget {
			oracle("C08", "query-not-answered-though-budget-allows:after-config-reuse", "%s exact-budget=%d pings=%d replies=%d", ctx, budget, len(pings), got)
		}
	default:
		limit := 3 * time.Second
		if A.lim == 2 {
			limit = 6 * time.Second
		}
		deadline := time.Now().Add(limit)
		for countReplies() < len(pings) && time.Now().Before(deadline) {
			time.Sleep(time.Millisecond)
		}
		if got := countReplies(); got < len(pings) {
			if A.lim == 2 {
				oracle("C20", "reply-dropped-though-configured-to-wait:after-config-reuse", "%s pings=%d replies=%d", ctx, len(pings), got)
			} else {
				oracle("C08", "query-not-answered:after-config-reuse", "%s pings=%d replies=%d calls-of-the-hook-set-later=%d", ctx, len(pings), got, atomic.LoadInt64(&hookB))
			}
		}
	}
	// ---- the node's own hook vetoes find_node
	if A.hook == 2 && !A.passive && A.lim == 0 {
		src := pub()
		t := tid("f")
		var qid, target [20]byte
		copy(qid[:], r.bytes(20))
		copy(target[:], r.bytes(20))
		send(src, krpc.Msg{Q: "find_node", Y: "q", T: t, A: &krpc.MsgArgs{ID: qid, Target: target}})
		fence()
		time.Sleep(40 * time.Millisecond)
		if m, _ := crReply(conn1, t); m != nil {
			oracle("C08", "vetoed-query-answered:after-config-reuse", "%s method=find_node", ctx)
		}
	}
	// ---- C19: the blocklist the node was built with
	if A.bl {
		src := &net.UDPAddr{IP: blockedIP, Port: 1 + r.intn(65535)}
		t := tid("b")
		bid := nfID(r, id1, src, true, -1)
		send(src, krpc.Msg{Q: "ping", Y: "q", T: t, A: &krpc.MsgArgs{ID: bid}})
		fence()
		time.Sleep(40 * time.Millisecond)
		m, _ := crReply(conn1, t)
		if m != nil || inTable(bid, src) {
			oracle("C19", "blocked-source-had-effect:after-config-reuse", "%s source=%s replied=%v in-table=%v", ctx, src, m != nil, inTable(bid, src))
		}
	}
	// ---- C19: a passive node's own queries are read-only
	if A.passive {
		dst := pub()
		before := len(crPeek(conn1))
		guard("Ping", ctx, func() { s1.Ping(dst) })
		for _, w := range crPeek(conn1)[before:] {
			if m, ok := decodeLikeServer(w.data); ok && m.Y == "q" && !m.ReadOnly {
				oracle("C19", "passive-node-query-without-ro:after-config-reuse", "%s method=%s to=%s", ctx, m.Q, w.addr)
				break
			}
		}
	}
	// ---- C11: the peer store and the announce hook the node was built with
	if peers && anns[0].ok && anns[1].ok {
		an := anns[1]
		t := tid("a")
		send(an.addr, krpc.Msg{Q: "announce_peer", Y: "q", T: t, A: &krpc.MsgArgs{ID: an.id, InfoHash: ih, Token: an.token, Port: &an.port}})
		if m, _ := crAwait(conn1, t, 3*time.Second); m == nil || m.Y != "r" {
			oracle("C08", "query-not-answered:after-config-reuse:announce_peer", "%s announcer=%s", ctx, an.addr)
		} else {
			want := map[string]bool{}
			for _, x := range anns {
				want[fmt.Sprintf("%s:%d", hx(x.addr.IP.To16()), x.port)] = true
			}
			var missing []string
			token := false
			for _, pause := range []time.Duration{0, 100 * time.Millisecond, 400 * time.Millisecond, 1500 * time.Millisecond} {
				time.Sleep(pause)
				missing = missing[:0]
				got := map[string]bool{}
				for _, fam := range []int{0, 1} { // an IPv4 and an IPv6 requester, each asking for both families
					src := nfAddr(r, fam)
					tg := tid("g")
					var qid [20]byte
					copy(qid[:], r.bytes(20))
					send(src, krpc.Msg{Q: "get_peers", Y: "q", T: tg, A: &krpc.MsgArgs{ID: qid, InfoHash: ih, Want: []krpc.Want{krpc.WantNodes, krpc.WantNodes6}}})
					if m, _ := crAwait(conn1, tg, 3*time.Second); m != nil && m.R != nil {
						token = m.R.Token != nil
						for _, v := range m.R.Values {
							got[fmt.Sprintf("%s:%d", hx(v.IP.To16()), v.Port)] = true
						}
					}
				}
				for w := range want {
					if !got[w] {
						missing = append(missing, w)
					}
				}
				if len(missing) == 0 && token {
					break
				}
			}
			if len(missing) != 0 || !token {
				oracle("C11", "accepted-announce-missing-from-get_peers:after-config-reuse", "%s infohash=%x missing=%v token=%v calls-of-the-store-set-later=%d", ctx, ih, sortedJoin(missing), token, len(psB.take()))
			}
			if A.annHook {
				deadline := time.Now().Add(3 * time.Second)
				for atomic.LoadInt64(&annA)-annBefore < 1 && time.Now().Before(deadline) {
					time.Sleep(time.Millisecond)
				}
				if atomic.LoadInt64(&annA)-annBefore < 1 {
					oracle("C11", "own-announce-hook-not-called:after-config-reuse", "%s calls-of-the-hook-set-later=%d", ctx, atomic.LoadInt64(&annB))
				}
			}
		}
	}
	emit("# config reuse %s: %s pings=%d replies=%d", tag, ctx, len(pings), countReplies())
}

// engine "cfgreuse": the config-reuse cases alone (for replay and stress runs; no check lists it)
func init() {
	engines["cfgreuse"] = func(seed uint64, tier string, args []string) {
		for n := 0; n < 6; n++ {
			configReuseCases(seed, n)
		}
	}
}
