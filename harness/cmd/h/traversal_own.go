package main

// Engine "traversal", part 3: input classes added for the seeded changes of round 6.
//
// (C) RESULT MEMORY OWNED BY THE DoQuery IMPLEMENTATION.  The scripted DoQuery of traversal.go used to
// build fresh slices for every reply, so a library that writes into (appends to, sorts, normalises
// in place) QueryResult.Nodes / Nodes6 / *ResponseFrom / the IP bytes could not hurt anybody.  A
// real DoQuery may hand out windows of one routing snapshot.  Every run now owns ONE snapshot
// (tMem): the Nodes and Nodes6 lists of all scripted replies are laid out in a single backing array
// and each reply returns sub-slices of it, in one of several layouts (all v4 windows then all v6
// windows, shuffled with filler gaps, a reply's two lists adjacent in either order, capacities
// running to the end of the snapshot or cut at the window, empty windows with spare capacity);
// ResponseFrom points into a second shared array and every IP is a window of one byte arena.
// What the lookup learns is what the windows hold at the moment the reply is returned, so memory
// scribbled over by the processing of an earlier reply is really lost to the lookup: the model
// lines and the C03 stall predicate see the missed contact.  After the run the oracle
//
//	oracle C03 doquery-result-memory-modified <what> layout=<layout>
//
// states that every element of the snapshot (including the spare filler) still reads as built.
// The correct library only ever reads these slices.
//
// (D) RESPONDERS THAT FAIL THE FILTERS UNDER THE IDENTITY THEY ANSWER WITH (kind "filtresp").
// The node filter sees a candidate twice: at admission (address + the ID it was listed under, or no
// ID for a bootstrap address) and when it answers (address it answers from + the ID it claims).  The
// older generators rarely made the two disagree on a node that matters.  Here the ONLY routes from
// the seeds to the good part of the network go through "gate" nodes that are admitted (ID-less seed,
// or listed under an acceptable alias ID) but answer under a rejected ID, from a rejected address, or
// with data the data filter rejects, or do not answer at all while still returning nodes; gates
// may be chained.  Such a responder must stay out of the result set, but what its reply lists is
// learned like anything else.  All lines are model-compared; when the good part is large enough the
// case is also an honest network for the exactness oracle.

import (
	"fmt"
	"hash/fnv"
	"sort"
	"strconv"
	"strings"
	"time"

	"github.com/anacrolix/dht/v2/krpc"
	"github.com/anacrolix/dht/v2/traversal"
)

// ---------------------------------------------------------------- (C) shared result memory

var tMemLayouts = []string{"fresh", "grouped", "shuffled", "adjacent", "tight", "grouped6first"}

type tWin struct{ lo, hi, cap int }

type tMem struct {
	layout  string
	snap    []krpc.NodeInfo
	want    []string
	win     map[string][2]tWin // per queried address: Nodes, Nodes6
	from    []krpc.NodeInfo
	fromIdx map[string]int
	fromW   []string
	arena   []byte
	arenaW  []byte
}

var tMemStats struct {
	runs, windows, bothFamilies, spare int
}

func tHash(s string) uint64 {
	h := fnv.New64a()
	h.Write([]byte(s))
	return h.Sum64()
}

func niString(n krpc.NodeInfo) string {
	return fmt.Sprintf("%s:%d:%s", hx(n.Addr.IP), n.Addr.Port, hx(n.ID[:]))
}

// buildMem lays out every scripted reply of the case in memory owned by the DoQuery side.
func buildMem(c *tCase, caseID string) *tMem {
	h := tHash(caseID)
	m := &tMem{layout: tMemLayouts[h%uint64(len(tMemLayouts))]}
	if m.layout == "fresh" {
		return m
	}
	rr := &rng{s: h ^ 0x6d656d}
	var keys []string
	for k := range c.net {
		keys = append(keys, k)
	}
	sort.Strings(keys)
	type wref struct {
		key string
		fam int
		ns  []tNI
	}
	var ws []wref
	switch m.layout {
	case "grouped", "tight":
		for fam := 0; fam < 2; fam++ {
			for _, k := range keys {
				ws = append(ws, wref{k, fam, [][]tNI{c.net[k].nodes, c.net[k].nodes6}[fam]})
			}
		}
	case "grouped6first":
		for fam := 1; fam >= 0; fam-- {
			for _, k := range keys {
				ws = append(ws, wref{k, fam, [][]tNI{c.net[k].nodes, c.net[k].nodes6}[fam]})
			}
		}
	case "adjacent":
		for _, k := range keys {
			a, b := 0, 1
			if rr.intn(2) == 0 {
				a, b = 1, 0
			}
			ws = append(ws, wref{k, a, [][]tNI{c.net[k].nodes, c.net[k].nodes6}[a]})
			ws = append(ws, wref{k, b, [][]tNI{c.net[k].nodes, c.net[k].nodes6}[b]})
		}
	default: // shuffled
		for _, k := range keys {
			ws = append(ws, wref{k, 0, c.net[k].nodes}, wref{k, 1, c.net[k].nodes6})
		}
		rr.shuffle(len(ws), func(i, j int) { ws[i], ws[j] = ws[j], ws[i] })
	}
	// the byte arena of all IPs (filled while the snapshot is laid out)
	total := 0
	for _, w := range ws {
		total += len(w.ns)
	}
	for _, k := range keys {
		if c.net[k].from != nil {
			total++
		}
	}
	m.arena = make([]byte, 0, 16*(total+8)+64)
	ipOf := func(ip []byte) []byte {
		lo := len(m.arena)
		m.arena = append(m.arena, ip...)
		if rr.intn(4) == 0 {
			m.arena = append(m.arena, 0xee, 0xee, 0xee) // filler between two IPs
		}
		return m.arena[lo : lo+len(ip)] // capacity runs to the end of the arena
	}
	mk := func(n tNI) krpc.NodeInfo {
		return krpc.NodeInfo{ID: arr20(n.id), Addr: krpc.NodeAddr{IP: ipOf(n.ip), Port: n.port}}
	}
	filler := func() krpc.NodeInfo {
		// a well-formed contact nobody lists (distinct address space), so a library that reads beyond
		// a window learns something the model never offered
		i := len(m.snap)
		return krpc.NodeInfo{ID: arr20(rr.bytes(20)), Addr: krpc.NodeAddr{IP: ipOf([]byte{10, 250, byte(i >> 8), byte(i)}), Port: 4000 + i}}
	}
	m.win = map[string][2]tWin{}
	for _, w := range ws {
		if m.layout == "shuffled" && rr.intn(3) == 0 {
			m.snap = append(m.snap, filler())
		}
		lo := len(m.snap)
		for _, n := range w.ns {
			m.snap = append(m.snap, mk(n))
		}
		e := m.win[w.key]
		e[w.fam] = tWin{lo: lo, hi: len(m.snap), cap: -1}
		if (m.layout == "tight" && rr.intn(2) == 0) || (m.layout == "shuffled" && rr.intn(5) == 0) {
			e[w.fam].cap = len(m.snap) // three-index slice: no spare capacity
		}
		m.win[w.key] = e
	}
	for i := 0; i < 2+rr.intn(3); i++ {
		m.snap = append(m.snap, filler()) // spare capacity behind the last window
	}
	m.snap = m.snap[:len(m.snap):len(m.snap)]
	m.fromIdx = map[string]int{}
	for _, k := range keys {
		if f := c.net[k].from; f != nil {
			m.fromIdx[k] = len(m.from)
			m.from = append(m.from, mk(*f))
		}
	}
	for _, n := range m.snap {
		m.want = append(m.want, niString(n))
	}
	for _, n := range m.from {
		m.fromW = append(m.fromW, niString(n))
	}
	m.arenaW = append([]byte(nil), m.arena...)
	tMemStats.runs++
	for _, k := range keys {
		e := m.win[k]
		tMemStats.windows += 2
		if e[0].hi > e[0].lo && e[1].hi > e[1].lo {
			tMemStats.bothFamilies++
		}
		if e[0].cap < 0 {
			tMemStats.spare++
		}
	}
	return m
}

func (m *tMem) window(w tWin) []krpc.NodeInfo {
	if w.cap >= 0 {
		return m.snap[w.lo:w.hi:w.cap]
	}
	return m.snap[w.lo:w.hi]
}

// result builds the QueryResult of the scripted reply of address key from the shared memory
func (m *tMem) result(key string, resp tResp, res *traversal.QueryResult) bool {
	if m == nil || m.layout == "fresh" {
		return false
	}
	e, ok := m.win[key]
	if !ok {
		return false
	}
	if resp.from != nil {
		res.ResponseFrom = &m.from[m.fromIdx[key]]
		res.ClosestData = resp.data
	}
	res.Nodes = m.window(e[0])
	res.Nodes6 = m.window(e[1])
	return true
}

// verify is called after the operation has stopped and every DoQuery has returned
func (m *tMem) verify(r *tRun) {
	if m == nil || m.layout == "fresh" {
		return
	}
	for i, n := range m.snap {
		if got := niString(n); got != m.want[i] {
			r.oracle("C03", "doquery-result-memory-modified", "nodes-snapshot[%d] was=%s now=%s layout=%s", i, m.want[i], got, m.layout)
			return
		}
	}
	for i, n := range m.from {
		if got := niString(n); got != m.fromW[i] {
			r.oracle("C03", "doquery-result-memory-modified", "response-from[%d] was=%s now=%s layout=%s", i, m.fromW[i], got, m.layout)
			return
		}
	}
	full := m.arena[:len(m.arenaW)]
	for i := range full {
		if full[i] != m.arenaW[i] {
			r.oracle("C03", "doquery-result-memory-modified", "ip-arena[%d] was=%02x now=%02x layout=%s", i, m.arenaW[i], full[i], m.layout)
			return
		}
	}
}

// ---------------------------------------------------------------- (D) responders failing the filters

// an id far from the target (top bit differs) that is not in `used`
func (g *tGen) farID(used map[string]bool) []byte {
	for {
		id := g.r.bytes(20)
		id[0] = (id[0] & 0x7f) | ((g.target[0] ^ 0x80) & 0x80)
		if !used[hx(id)] {
			used[hx(id)] = true
			return id
		}
	}
}

func (g *tGen) filtResp(n int, kMax int) *tCase {
	c := g.baseCase("filtresp", n, kMax)
	if g.r.intn(3) == 0 {
		c.K = 0
	}
	good := g.nodes(n)
	// keep the good part in the near half of the ID space so that gates (far half) never belong to
	// the K closest nodes of the network
	used := map[string]bool{}
	for i := range good {
		if (good[i].id[0]^g.target[0])&0x80 != 0 {
			good[i].id[0] ^= 0x80
		}
		for used[hx(good[i].id)] {
			good[i].id = g.idNear(1 + g.r.intn(60000))
		}
		used[hx(good[i].id)] = true
	}
	honest := g.r.intn(2) == 0
	kc := kClosest(good, c.target, c.effK())
	k4, k6 := splitFamilies(kc)
	for i, nd := range good {
		nd := nd
		resp := tResp{from: &nd, data: strconv.Itoa(i + 1)}
		if honest {
			resp.nodes, resp.nodes6 = k4, k6
		} else {
			m := g.r.intn(len(good) + 1)
			for j := 0; j < m; j++ {
				x := good[g.r.intn(len(good))]
				if len(x.ip) == 4 {
					resp.nodes = append(resp.nodes, x)
				} else {
					resp.nodes6 = append(resp.nodes6, x)
				}
			}
		}
		c.net[nd.addrKey()] = resp
	}
	// gates: admitted, but failing a filter under the identity they answer with
	ng := 1 + g.r.intn(3)
	type gate struct {
		listed tNI // how the others know it (id nil = bootstrap address)
		how    string
	}
	var gates []gate
	chained := ng >= 2 && g.r.intn(2) == 0
	hows := []string{"badid", "badid", "badid", "badaddr", "baddata", "silent", "badid-data"}
	for i := 0; i < ng; i++ {
		gt := gate{how: hows[g.r.intn(len(hows))]}
		gt.listed = tNI{ip: g.v4(400 + i), port: 6881 + i}
		if g.r.intn(5) == 0 {
			gt.listed.ip = g.v6(400 + i)
		}
		if g.r.intn(2) == 0 || (chained && i > 0) {
			gt.listed.id = g.farID(used) // acceptable alias it is listed under (replies always carry an ID)
		}
		gates = append(gates, gt)
	}
	// what a gate lists: the next gate of the chain (under its listing identity) and / or the good part
	for i, gt := range gates {
		f := gt.listed
		resp := tResp{data: strconv.Itoa(900 + i)}
		switch gt.how {
		case "badid", "badid-data":
			f.id = g.farID(used)
			c.badID[hx(f.id)] = true
			if gt.how == "badid-data" {
				c.badData[resp.data] = true
			}
		case "badaddr":
			f.ip, f.port = g.v4(450+i), 7
			if f.id == nil {
				f.id = g.farID(used)
			}
			c.badAddr[f.addrKey()] = true
		case "baddata":
			if f.id == nil {
				f.id = g.farID(used)
			}
			c.badData[resp.data] = true
		case "silent":
			f.id = nil
		}
		if gt.how != "silent" {
			ff := f
			resp.from = &ff
		}
		var lists []tNI
		last := i == len(gates)-1
		if chained && !last {
			lists = append(lists, gates[i+1].listed)
			if g.r.intn(3) == 0 {
				lists = append(lists, good[g.r.intn(len(good))])
			}
		} else if honest {
			lists = append(lists, kc...)
		} else {
			m := 1 + g.r.intn(len(good))
			for j := 0; j < m; j++ {
				lists = append(lists, good[g.r.intn(len(good))])
			}
			// always the closest good node: it is reachable only through a gate
			lists = append(lists, kc[0])
		}
		if g.r.intn(3) == 0 {
			// the gate lists itself under the identity the filter rejects
			if f.id != nil {
				lists = append(lists, f)
			}
		}
		resp.nodes, resp.nodes6 = splitFamilies(lists)
		c.net[gt.listed.addrKey()] = resp
	}
	// seeds: gates only (the sole routes); sometimes one good node as well
	if chained {
		c.seeds = append(c.seeds, gates[0].listed)
	} else {
		for _, gt := range gates {
			if len(c.seeds) == 0 || g.r.intn(2) == 0 {
				c.seeds = append(c.seeds, gt.listed)
			}
		}
	}
	if g.r.intn(5) == 0 {
		c.seeds = append(c.seeds, good[g.r.intn(len(good))])
	}
	if !honest && g.r.intn(4) == 0 {
		// good nodes know the gates too (under their listing identity)
		k := good[g.r.intn(len(good))].addrKey()
		rp := c.net[k]
		for _, gt := range gates {
			if gt.listed.id != nil {
				if len(gt.listed.ip) == 4 {
					rp.nodes = append(append([]tNI(nil), rp.nodes...), gt.listed)
				} else {
					rp.nodes6 = append(append([]tNI(nil), rp.nodes6...), gt.listed)
				}
			}
		}
		c.net[k] = rp
	}
	if honest && len(good) >= c.effK() {
		// every contacted node answers with the true K closest nodes of the network (the gates are in
		// the far half, the good part in the near half): exactness applies
		allHonest := true
		for _, gt := range gates {
			rp := c.net[gt.listed.addrKey()]
			if len(rp.nodes)+len(rp.nodes6) != len(kc) {
				allHonest = false
			}
		}
		if allHonest {
			c.honest = good
		}
	}
	return c
}

// tree-shaped networks: every contact is listed by exactly one reply, replies carry both address
// families.  A contact that is lost on the way (result memory overwritten, a reply's list dropped)
// is lost for good, so the stall predicate and the model lines see it.
func (g *tGen) tree(n int, kMax int) *tCase {
	c := g.baseCase("tree", n, kMax)
	if g.r.intn(2) == 0 {
		c.K = 0
	}
	ns := g.nodes(n + 2)
	for i := range ns {
		if i%3 == 2 || g.r.intn(4) == 0 {
			ns[i].ip = g.v6(500 + i)
		} else if len(ns[i].ip) != 4 {
			ns[i].ip = g.v4(500 + i)
		}
	}
	children := make([][]tNI, len(ns))
	for i := 1; i < len(ns); i++ {
		p := g.r.intn(i)
		if g.r.intn(2) == 0 && i > 2 {
			p = g.r.intn(2) // bushy near the root: the first replies list several contacts of both families
		}
		children[p] = append(children[p], ns[i])
	}
	for i, nd := range ns {
		nd := nd
		resp := tResp{from: &nd, data: strconv.Itoa(i + 1)}
		if g.r.intn(8) == 0 {
			resp.from = nil // silent, still routes
		}
		resp.nodes, resp.nodes6 = splitFamilies(children[i])
		c.net[nd.addrKey()] = resp
	}
	c.seeds = []tNI{ns[0]}
	if g.r.intn(3) == 0 {
		c.seeds[0].id = nil
	}
	return c
}

func tMemReport() string {
	return fmt.Sprintf("# traversal-mem runs=%d windows=%d replies-with-both-families=%d windows-with-spare-capacity=%d layouts=%s",
		tMemStats.runs, tMemStats.windows, tMemStats.bothFamilies, tMemStats.spare, strings.Join(tMemLayouts, ","))
}

// waitReturned waits (bounded) until every DoQuery call of the run has returned, so that the
// library is done with the result slices before they are inspected.
func (r *tRun) waitReturned() {
	deadline := time.Now().Add(tDeadline)
	for {
		r.mu.Lock()
		n := r.inDo
		r.mu.Unlock()
		if n == 0 || time.Now().After(deadline) {
			return
		}
		time.Sleep(100 * time.Microsecond)
	}
}
