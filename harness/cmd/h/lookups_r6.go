package main

// Engine "lookups", sixth case family (round 6): four input classes the scripted networks did not produce, and the
// oracles that go with them.  All cases are ordinary lkbegin .. lkend cases (issues, replies, sends, result replayed by
// the extracted model, drv_lookups.ml); cases carrying an lkClosest (cl) also run under C02 / C03 / C04.
//
//   errors    (C04, C03, C02) nodes that answer the LOOKUP's own query (get / get_peers / find_node) with a KRPC error:
//             codes 201 .. 205, 0, 999, -1, the string form of `e`, an empty message, and malformed errors the server
//             cannot decode (the datagram is sent all the same; for the query that is silence) - as starting nodes and
//             as nodes learned from replies, for getput.Get (mutable, immutable absent), getput.Put, Announce /
//             AnnounceTraversal, Bootstrap and traversal.Start wired like Bootstrap.  Per-address query datagrams are
//             counted on the wire whatever their method (oracle C04 address-queried-twice:*, lookups_closest.go), the
//             model replays every issue (a second query to an address is a line the model does not produce).
//   extremes  (C12) genuine, really signed versions of one mutable item whose sequence numbers sit at the ends of int64
//             (MinInt64, -(2^62+10), -1, 0, 1, 2^62+10, MaxInt64): every pair, answered stale-first and fresh-first, all of
//             them at once (asc / desc / freshest last / seeded order), with a busy consumer, and on the way of a Put
//             (autoSeq).  The model compares in Z; oracle client-not-highest-seq.
//   together  (C14) an immutable item held by 2 .. 8 of the nodes queried in the same round whose replies are ALL in hand
//             when Get takes the first copy (the consumer sits in the logger of the caller's context meanwhile), caller
//             context never cancelled.  Oracle C14 goroutine-leak:<api>:after-return-caller-context-alive (every get / put
//             case of the engine's main runner): once Get / Put has returned, no goroutine of the lookup (a frame of
//             dht/v2/traversal or dht/v2/exts/getput) may be left - checked BEFORE the harness cancels the caller's context,
//             against the number of such goroutines when the call began (5 s).
//   flip      (C02 and every API) the socket reports the source of every inbound datagram in the OTHER byte form than the
//             one the datagram was sent to (4-byte IPv4 <-> 16-byte IPv4-mapped; what a dual-stack [::] socket does), on
//             honest networks (Bootstrap K = 16 and traversal.Start K = 8: exactness, line lkexact) and for Announce, Get,
//             Put; starting nodes handed over in 4-byte or in 16-byte form.  The model identifies both forms (addrTok).
//             Oracle C02 answered-node-not-counted:source-in-other-byte-form:<api>: the lookup is still waiting 8 s after
//             every query of it was answered from the queried endpoint.

import (
	"bytes"
	"crypto/ed25519"
	"crypto/sha1"
	"fmt"
	"math"
	"net"
	"runtime"
	"strings"
	"time"

	"github.com/anacrolix/torrent/bencode"

	"github.com/anacrolix/dht/v2/krpc"
)

type lkR6 struct {
	flip   bool // the conn reports inbound sources in the other byte form
	detail string
}

// ---------------------------------------------------------------- error replies

// r6ErrBytes: the datagram an "err" node answers with.  errForm "" = the list form [code, msg].
func r6ErrBytes(n *lkNode, t string) []byte {
	code := n.errCode
	if code == 0 && n.errForm == "" {
		b, _ := bencode.Marshal(krpc.Msg{T: t, Y: "e", E: &krpc.Error{Code: 201, Msg: "no"}})
		return b
	}
	tt := fmt.Sprintf("1:t%d:%s1:y1:ee", len(t), t)
	switch n.errForm {
	case "string": // `e` is a bencoded string (krpc.Error accepts it: code 0)
		return []byte("d1:e14:Method Unknown" + tt)
	case "emptymsg":
		return []byte(fmt.Sprintf("d1:eli%de0:e", code) + tt)
	case "codeonly": // malformed: one-element list
		return []byte(fmt.Sprintf("d1:eli%dee", code) + tt)
	case "swapped": // malformed: [msg, code]
		return []byte(fmt.Sprintf("d1:el2:noi%dee", code) + tt)
	case "dict": // malformed: a dict
		return []byte(fmt.Sprintf("d1:ed4:codei%dee", code) + tt)
	}
	b, _ := bencode.Marshal(krpc.Msg{T: t, Y: "e", E: &krpc.Error{Code: code, Msg: "verif error"}})
	return b
}

// r6ErrReply: the reply of an "err" node as far as the query is concerned (nil = the server cannot decode it).
func (st *lkState) r6ErrReply(q *lkQuery) []byte {
	b := r6ErrBytes(q.node, q.t)
	if m, ok := decodeLikeServer(b); !ok || m.R != nil {
		return nil
	}
	return b
}

// r6ErrGarbage: the undecodable ones are sent as well.
func (st *lkState) r6ErrGarbage(q *lkQuery) []byte {
	b := r6ErrBytes(q.node, q.t)
	if _, ok := decodeLikeServer(b); ok {
		return nil
	}
	return b
}

// ---------------------------------------------------------------- the socket that reports the other byte form

type lkFlipConn struct{ net.PacketConn }

func lkFlipForm(a net.Addr) net.Addr {
	ua, ok := a.(*net.UDPAddr)
	if !ok || ua == nil {
		return a
	}
	v4 := ua.IP.To4()
	if v4 == nil {
		return a
	}
	if len(ua.IP) == 4 {
		return &net.UDPAddr{IP: append(net.IP(nil), ua.IP.To16()...), Port: ua.Port, Zone: ua.Zone}
	}
	return &net.UDPAddr{IP: append(net.IP(nil), v4...), Port: ua.Port, Zone: ua.Zone}
}

func (fc lkFlipConn) ReadFrom(b []byte) (int, net.Addr, error) {
	n, a, err := fc.PacketConn.ReadFrom(b)
	if err != nil {
		return n, a, err
	}
	return n, lkFlipForm(a), nil
}

func (st *lkState) r6Conn(pc net.PacketConn) net.PacketConn {
	if st.c.r6 != nil && st.c.r6.flip {
		return lkFlipConn{pc}
	}
	return pc
}

// r6Stuck: the lookup did not end within the engine's 8 s.
func (st *lkState) r6Stuck() {
	c := st.c
	if c.r6 == nil || !c.r6.flip {
		return
	}
	oracle("C02", "answered-node-not-counted:source-in-other-byte-form:"+c.api,
		"the lookup has not ended 8 s after its queries were answered from the queried endpoints (same IPv4 address and port, reported by the socket in the other byte form): outstanding=%d: %s",
		st.s.Stats().OutstandingTransactions, st.closestTag())
}

// ---------------------------------------------------------------- goroutines of the lookup after it returned

func lkLookupGoroutines() (n int, sample string) {
	buf := make([]byte, 1<<20)
	for {
		m := runtime.Stack(buf, true)
		if m < len(buf) {
			buf = buf[:m]
			break
		}
		buf = make([]byte, 2*len(buf))
	}
	for _, g := range strings.Split(string(buf), "\n\n") {
		if strings.Contains(g, "github.com/anacrolix/dht/v2/traversal.") || strings.Contains(g, "github.com/anacrolix/dht/v2/exts/getput.") {
			n++
			if sample == "" {
				for _, l := range strings.Split(g, "\n") {
					if strings.HasPrefix(l, "github.com/anacrolix/dht/v2/") {
						if i := strings.LastIndex(l, "("); i > 0 {
							l = l[:i]
						}
						sample = strings.TrimPrefix(l, "github.com/anacrolix/dht/v2/")
						break
					}
				}
			}
		}
	}
	return
}

// r6Before: called right before the API call of the case is started.
func (st *lkState) r6Before() {
	if st.c.api == "get" || st.c.api == "put" {
		st.r6Base, _ = lkLookupGoroutines()
	}
}

// r6AfterReturn: the API call has returned; the harness has not yet cancelled the caller's context nor closed the server.
func (st *lkState) r6AfterReturn(res *lkResult) {
	c := st.c
	if (c.api != "get" && c.api != "put") || res.stuck {
		return
	}
	dl := time.Now().Add(5 * time.Second)
	pause := 50 * time.Microsecond
	var n int
	var sample string
	for {
		n, sample = lkLookupGoroutines()
		if n <= st.r6Base || time.Now().After(dl) {
			break
		}
		time.Sleep(pause)
		if pause < 20*time.Millisecond {
			pause *= 2
		}
	}
	if n > st.r6Base {
		ctxState := "alive"
		if c.stopAct == "ctx" && c.stopAt >= 0 {
			ctxState = "maybe-cancelled"
		}
		oracle("C14", fmt.Sprintf("goroutine-leak:%s:after-return-caller-context-alive", c.api),
			"%d goroutine(s) of the lookup (traversal / getput frames, first: %s) still there 5 s after %s returned res=%s (before the call: %d; caller context %s, server open): case=%d %s sub=%d fault=%s",
			n-st.r6Base, sample, c.api, res.res, st.r6Base, ctxState, c.idx, c.name(), c.sub, c.fault)
	}
}

// ---------------------------------------------------------------- cases

func lookupR6Cases(seed uint64, tier string, base int) []lkCase {
	var cs []lkCase
	root := &rng{s: seed ^ 0x6e6e0006}
	add := func(c lkCase) {
		c.idx = base + len(cs)
		c.reps = 1
		c.sn = "ok"
		if c.stopAct == "" {
			c.stopAt = -1
		}
		c.consStop = -1
		c.sub = root.sub(c.idx).next() | 1
		cs = append(cs, c)
	}
	mkTarget := func(r *rng) (t [20]byte) { copy(t[:], r.bytes(20)); return }
	mul := 1
	if tier == "thorough" {
		mul = 6
	}
	var ownID [20]byte
	ownID[0], ownID[19] = 0x42, 0x24
	type annOpt struct {
		opts    bool
		port    int
		imp     bool
		scrape  bool
		viaTrav bool
		name    string
	}
	annOn := []annOpt{
		{true, 6881, false, false, false, "port"},
		{true, 0, true, false, true, "traversal-api-implied"},
		{true, 6881, true, true, false, "port+implied+scrape"},
		{true, 6881, false, false, true, "traversal-api-port"},
	}
	setAPI := func(c *lkCase, api string, i int) {
		switch api {
		case "announce":
			o := annOn[i%len(annOn)]
			c.api = "announce"
			c.annOpts, c.annPort, c.annImp, c.scrape, c.viaTrav = o.opts, o.port, o.imp, o.scrape, o.viaTrav
			c.desc += "-" + o.name
		case "trav":
			c.api = "bootstrap"
		default:
			c.api = api
		}
	}

	// ================= errors: nodes answering the lookup's query with KRPC errors =================
	type errKind struct {
		code int
		form string
	}
	errKinds := []errKind{{204, ""}, {201, ""}, {203, ""}, {202, ""}, {204, "emptymsg"}, {0, "string"}, {205, ""}, {204, "codeonly"}, {999, ""},
		{-1, ""}, {204, "swapped"}, {204, "dict"}, {301, ""}}
	apis := []string{"get", "get-immutable", "put", "announce", "bootstrap", "trav"}
	for ni := 0; ni < 2*mul; ni++ {
		for ai, api := range apis {
			r := root.sub(100 + 10*ni + ai)
			pub, priv, _ := ed25519.GenerateKey(bytes.NewReader(r.bytes(64)))
			salt := [][]byte{nil, []byte("e6")}[(ni+ai)%2]
			target := mkTarget(r)
			var bv []byte
			switch api {
			case "get", "put":
				target = sha1.Sum(append(append([]byte(nil), pub...), salt...))
			case "get-immutable":
				bv, _ = bencode.Marshal(fmt.Sprintf("r6-immutable-%d", ni))
				target = sha1.Sum(bv)
			case "bootstrap":
				target = ownID
			}
			n := 8 + r.intn(7)
			nodes := lkClosestNet(r.sub(1), n, target, 0, 0)
			var errIdx []int
			var descs []string
			for i, nd := range nodes {
				// everybody knows the two closest, its closer neighbour and two random nodes
				for _, j := range []int{0, 1, i - 1, r.intn(n), r.intn(n)} {
					if j >= 0 && j != i {
						nd.lists = append(nd.lists, j)
					}
				}
				if i%3 == (ni+ai)%3 && i != n-2 {
					k := errKinds[(len(errIdx)+3*ni+5*ai)%len(errKinds)]
					if len(errIdx) == 0 {
						k = errKinds[(ni+ai)%2*4] // the first one: Method Unknown, list form / empty message
					}
					nd.kind, nd.errCode, nd.errForm, nd.token = "err", k.code, k.form, nil
					errIdx = append(errIdx, i)
					descs = append(descs, fmt.Sprintf("%d:%d%s", i, k.code, k.form))
				} else if api == "get" || api == "put" {
					if i%2 == 0 {
						sq := int64(1 + i)
						nd.item, nd.genuine, nd.flavour = lkMkItem(pub, priv, salt, sq, fmt.Sprintf("v%d", sq)), true, "genuine"
					}
				}
			}
			// starting nodes: a node that answers, and the first two erroring ones; the others are learned from replies
			start := []int{n - 2}
			for _, i := range errIdx {
				if len(start) < 3 {
					start = append(start, i)
				}
			}
			c := lkCase{target: target, nodes: nodes, start: start, desc: fmt.Sprintf("error-replies-net%d-%s", ni, api),
				cl: &lkClosest{fam: "errors", detail: "err=" + strings.Join(descs, ",")}}
			switch api {
			case "get", "put":
				c.salt, c.pub, c.priv, c.mutable, c.putValue = salt, pub, priv, true, "mine"
				setAPI(&c, api, ni)
			case "get-immutable":
				setAPI(&c, "get", ni)
			case "trav":
				c.cl.k, c.cl.alpha = []int{8, 3}[ni%2], []int{3, 1}[ni%2]
				setAPI(&c, api, ni)
			default:
				setAPI(&c, api, ni+ai)
			}
			add(c)
		}
	}

	// ================= extremes: genuine versions with sequence numbers at the ends of int64 =================
	ext := []int64{math.MinInt64, -(1<<62 + 10), -1, 0, 1<<62 + 10, math.MaxInt64}
	seqName := func(s int64) string {
		switch s {
		case math.MinInt64:
			return "min"
		case math.MaxInt64:
			return "max"
		case -(1<<62 + 10):
			return "neg2p62"
		case 1<<62 + 10:
			return "pos2p62"
		}
		return fmt.Sprint(s)
	}
	extCase := func(r *rng, api string, seqs []int64, order, hold string, tag string) {
		pub, priv, _ := ed25519.GenerateKey(bytes.NewReader(r.bytes(64)))
		salt := [][]byte{nil, []byte("x6")}[len(cs)%2]
		target := sha1.Sum(append(append([]byte(nil), pub...), salt...))
		n := len(seqs)
		nodes := genNet(r, n, target)
		var names []string
		start := make([]int, n)
		for i, nd := range nodes {
			nd.lists = nil // everything is in flight at once: the order of the replies is the case's
			nd.item, nd.genuine, nd.flavour = lkMkItem(pub, priv, salt, seqs[i], "v"+seqName(seqs[i])), true, "genuine"
			names = append(names, seqName(seqs[i]))
			start[i] = i
		}
		f := &lkFault{order: order, hold: hold}
		ord := order
		if ord == "" {
			ord = "random"
		}
		c := lkCase{api: api, target: target, salt: salt, pub: pub, priv: priv, mutable: true, putValue: "mine", nodes: nodes, start: start, fault: f,
			desc: fmt.Sprintf("extreme-seqs-%s-%s%s%s", strings.Join(names, "_"), ord, map[bool]string{true: "-busy-" + hold, false: ""}[hold != ""], tag)}
		add(c)
	}
	pi := 0
	for i := 0; i < len(ext); i++ {
		for j := i + 1; j < len(ext); j++ {
			for _, order := range []string{"asc", "desc"} {
				extCase(root.sub(400+pi), "get", []int64{ext[j], ext[i]}, order, "", "")
				pi++
			}
		}
	}
	all := append([]int64{1, 7}, ext...)
	for oi, order := range []string{"asc", "desc", "fresh-last", ""} {
		r := root.sub(500 + oi)
		seqs := append([]int64(nil), all...)
		for i := len(seqs) - 1; i > 0; i-- {
			j := r.intn(i + 1)
			seqs[i], seqs[j] = seqs[j], seqs[i]
		}
		extCase(r, "get", seqs, order, "", "")
		extCase(r.sub(1), "put", seqs[:2+r.intn(len(seqs)-1)], order, "", "")
		extCase(r.sub(2), "get", seqs[:3+r.intn(4)], order, []string{"every", "first"}[oi%2], "")
	}
	for xi := 0; xi < 6*(mul-1); xi++ { // thorough: random subsets, random orders
		r := root.sub(600 + xi)
		var seqs []int64
		seen := map[int64]bool{}
		for len(seqs) < 2+r.intn(5) {
			s := all[r.intn(len(all))]
			if r.intn(4) == 0 {
				s = int64(r.next())
			}
			if !seen[s] {
				seen[s] = true
				seqs = append(seqs, s)
			}
		}
		extCase(r, []string{"get", "get", "put"}[xi%3], seqs, []string{"asc", "desc", "fresh-last", ""}[r.intn(4)], []string{"", "", "every", "first", "sleep"}[r.intn(5)], fmt.Sprintf("-%d", xi))
	}
	// a seq argument at the extremes: nodes ignore it
	for ai, arg := range []int64{math.MinInt64, math.MaxInt64 - 1} {
		r := root.sub(650 + ai)
		pub, priv, _ := ed25519.GenerateKey(bytes.NewReader(r.bytes(64)))
		salt := []byte("a6")
		target := sha1.Sum(append(append([]byte(nil), pub...), salt...))
		nodes := genNet(r, 3, target)
		for i, nd := range nodes {
			nd.lists = nil
			sq := []int64{math.MaxInt64, math.MinInt64, 0}[i]
			nd.item, nd.genuine, nd.flavour = lkMkItem(pub, priv, salt, sq, "v"+seqName(sq)), true, "genuine"
		}
		a := arg
		add(lkCase{api: "get", target: target, salt: salt, pub: pub, priv: priv, mutable: true, seqArg: &a, nodes: nodes, start: []int{0, 1, 2},
			fault: &lkFault{order: []string{"asc", "desc"}[ai]}, desc: "extreme-seq-argument-" + seqName(arg)})
	}

	// ================= together: every holder's reply is in hand when Get takes the first copy =================
	for ti := 0; ti < 5*mul; ti++ {
		r := root.sub(700 + ti)
		bv, _ := bencode.Marshal(fmt.Sprintf("r6-together-%d", ti))
		it := sha1.Sum(bv)
		holders := []int{2, 8, 3, 5, 2}[ti%5]
		others := []int{0, 0, 2, 3, 1}[ti%5]
		if ti >= 5 {
			holders, others = 2+r.intn(10), r.intn(4)
		}
		n := holders + others
		nodes := genNet(r, n, it)
		start := make([]int, n)
		for i, nd := range nodes {
			start[i] = i
			nd.lists = nil
			if i < holders {
				nd.item, nd.genuine, nd.flavour = &lkItem{v: bv}, true, "genuine-immutable"
			} else if i%2 == 0 {
				wrong, _ := bencode.Marshal("not-the-value")
				nd.item, nd.flavour = &lkItem{v: wrong}, "wrong-value"
			}
			if r.intn(5) == 0 {
				nd.token = nil
			}
		}
		hold := []string{"first", "every", "first", "sleep", "every"}[ti%5]
		add(lkCase{api: "get", target: it, nodes: nodes, start: start, fault: &lkFault{hold: hold},
			desc: fmt.Sprintf("immutable-held-by-%d-of-%d-replies-together-busy-%s-%d", holders, n, hold, ti)})
	}

	// ================= flip: the socket reports sources in the other byte form =================
	flipAPIs := []string{"bootstrap", "trav", "announce", "get", "put", "get-immutable"}
	for fi := 0; fi < 2*mul; fi++ {
		for ai, api := range flipAPIs {
			if tier != "thorough" && api == "get-immutable" && fi == 1 {
				continue
			}
			r := root.sub(800 + 10*fi + ai)
			pub, priv, _ := ed25519.GenerateKey(bytes.NewReader(r.bytes(64)))
			salt := []byte("f6")
			target := mkTarget(r)
			var bv []byte
			switch api {
			case "get", "put":
				target = sha1.Sum(append(append([]byte(nil), pub...), salt...))
			case "get-immutable":
				bv, _ = bencode.Marshal(fmt.Sprintf("r6-flip-immutable-%d", fi))
				target = sha1.Sum(bv)
			case "bootstrap":
				target = ownID
			}
			n := 18 + r.intn(8)
			K, L := 16, 16
			switch api {
			case "trav":
				K, L = 8, 12
			case "announce", "get", "put", "get-immutable":
				K, L, n = 8, 8, 10+r.intn(5)
			}
			v6 := 0
			if fi%2 == 1 && (api == "bootstrap" || api == "trav") {
				v6 = 5
			}
			nodes := lkClosestNet(r.sub(1), n, target, v6, 60+fi)
			lkHonestLists(nodes, L, fi%2 == 0)
			seeds := lkFarthest(n, 2)
			mappedSeeds := fi%2 == 1
			cl := &lkClosest{fam: "flip", listL: L, exact: api == "bootstrap" || api == "trav"}
			if api == "trav" {
				cl.k, cl.alpha = K, 3
			}
			if mappedSeeds {
				// the starting nodes are handed over in the 16-byte form (net.ResolveUDPAddr); the socket reports them 4-byte
				// The traversal keeps addresses "as reported" (netip.AddrPort: the two byte forms of one IPv4 address are two
				// addresses to it, DESIGN appendix B), so nobody lists these nodes in the 4-byte form: they appear under ONE form.
				isSeed := map[int]bool{}
				for _, i := range seeds {
					if nodes[i].form == "" {
						nodes[i].addr = &net.UDPAddr{IP: nodes[i].addr.IP.To16(), Port: nodes[i].addr.Port}
						isSeed[i] = true
					}
				}
				for _, nd := range nodes {
					var keep []int
					for _, j := range nd.lists {
						if !isSeed[j] {
							keep = append(keep, j)
						}
					}
					if len(keep) < len(nd.lists) && len(keep) < K {
						cl.exact = false
					}
					nd.lists = keep
				}
			}
			cl.detail = fmt.Sprintf("sources-in-other-byte-form seeds-16-byte=%v", mappedSeeds)
			switch api {
			case "get", "put":
				for i := 0; i < 3; i++ {
					sq := int64(2 + i)
					nodes[i].item, nodes[i].genuine, nodes[i].flavour = lkMkItem(pub, priv, salt, sq, fmt.Sprintf("f%d", sq)), true, "genuine"
				}
			case "get-immutable":
				nodes[0].item, nodes[0].genuine, nodes[0].flavour = &lkItem{v: bv}, true, "genuine-immutable"
			}
			c := lkCase{target: target, nodes: nodes, start: seeds, cl: cl, r6: &lkR6{flip: true, detail: cl.detail},
				desc: fmt.Sprintf("source-in-other-byte-form-%s-n%d-seeds16=%v-%d", api, n, mappedSeeds, fi)}
			switch api {
			case "get", "put":
				c.salt, c.pub, c.priv, c.mutable, c.putValue = salt, pub, priv, true, "mine"
				setAPI(&c, api, fi)
			case "get-immutable":
				setAPI(&c, "get", fi)
			default:
				setAPI(&c, api, fi+ai)
			}
			add(c)
		}
	}
	return cs
}
