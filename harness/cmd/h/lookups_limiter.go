package main

// lookups_limiter.go -- two input classes of the "lookups" engine (C16, C14; C01 / C12 share the engine) that the
// scripted network of lookups.go never produced.  Both reuse the engine's line protocol unchanged (lkbegin / lkissue /
// lkreply / lkctx / lkclose / lkstoptrav / lkend are recomputed by the extracted model, drv_lookups.ml) and its
// implementation-only oracles (lkState.oracles); the cases are ordinary lookups cases with lkCase.lim set and are run by
// runLookupLimOnce below.
//
// 1. A SendLimiter that limits.  Every other lookups case runs with rate.Inf.  Here ServerConfig.SendLimiter is
//      hour / 10min  rate.Every(time.Hour | 10 min), burst 0..3: once the burst is used up a rate-limited send WAITS, and
//                    nothing but the cancellation of the query's context ends that wait within the life of a case
//      zero          rate 0, burst 0..3 (the exact-budget limiter): once the budget is used up a send FAILS at once
//      tick          rate.Every(1..4 ms), burst 1..2: sends trickle out, a lookup always has queries queued
//    x Announce / AnnounceTraversal (announcing on and off), getput.Get, getput.Put, Bootstrap, with >= 3 starting nodes
//    so that queries queue behind the limiter, x Close / StopTraversing / ctx cancel / getput.Get ending on an immutable
//    value.  The stop action of a waiting limiter is taken only when the harness SEES a query queued behind the limiter
//    (a transaction that is registered -- hook VerifPending -- whose datagram has not reached the socket, stable over
//    several samples): the hazardous point is reached by construction.  Variants: the limiter is opened
//    (SetLimit(rate.Inf)) immediately before StopTraversing, so that the announce_peer queries the stop leads to can
//    leave while the get_peers queries that were already waiting still wait; StopTraversing with the limiter still shut,
//    wait until the announce_peer queries are queued behind it in turn, then Close.
//    What the model says: a query that waits for its send slot has not sent a datagram; the harness reports queries by
//    their datagrams (`lkissue` when one leaves), so to the model such a query is simply not issued yet (or, with a
//    trickling limiter, issued later), and TIssue is enabled at any time before the stop.  Every stop event makes all
//    in-flight queries return without a reply (rl_settle ret_none), which is what a cancelled wait is.  announce_peer /
//    put queries that never leave because the lookup was closed / its ctx cancelled are the model's "any sub-multiset
//    of the sends after Close() / ctx".  A budget that is used up (zero) makes announce_peer fail although nobody
//    cancelled: those cases run with announcing off, with Close, or with a budget of 0 (no responder, empty closest set).
//    Liveness oracles are the engine's bounded waits: the lookup ends within 8 s of its start (Peers closed, Finished
//    fired: `oracle C16 peers-not-closed:*`, `oracle C14 lookup-did-not-return:*`), no transaction and no goroutine is
//    left (`transaction-leak`, `goroutine-leak:*`); they hold for the code whatever the moment of the stop.
//    Bootstrap's find_node queries ignore every context (context.TODO): they run only under the trickling limiter.
//
// 2. Nodes that do not acknowledge announce_peer / put.  The scripted nodes of lookups.go answer announce_peer with
//    a plain response or not at all.  Here each node has its own answer: KRPC error 201 / 202 / 203 / 204 / 205 / 301 / 302,
//    an error whose e is a string, an e that cannot be decoded (integer, list of the wrong types, empty list), y=e
//    without e, silence, a response from another port / another IP, a response with another t, the response twice, an
//    error followed by a response, a query coming back with the same t.  Nodes may answer get_peers / get with KRPC
//    errors 201..204, and may hand out a FRESH token with every further query they get (token rotation): the token
//    the engine's oracles and the model expect back is the one of the traversal's own query.  The model decides the
//    closest set, the announce_peer / put multiset (destination, token, infohash, port, implied, seq) and Peers as
//    for every other case: whatever a node says to announce_peer, it gets exactly one, with the token it gave during
//    the traversal (lkend `sends`, oracles announced-twice / wrong-token / announce-to-non-closest), and every
//    get_peers response that is served shows up on Peers (oracle response-not-delivered, lkend `peers`).
//
// Everything is derived from the seed PRNG; the real-time elements are the engine's bounded waits and, for `tick`,
// the order in which queued queries leave (the harness numbers queries in the order their datagrams leave, the model
// follows that order).

import (
	"bytes"
	"context"
	"crypto/ed25519"
	"crypto/sha1"
	"errors"
	"fmt"
	"net"
	"runtime"
	"sort"
	"strings"
	"sync"
	"sync/atomic"
	"time"

	"github.com/anacrolix/log"
	"github.com/anacrolix/torrent/bencode"
	"golang.org/x/time/rate"

	dht "github.com/anacrolix/dht/v2"
	"github.com/anacrolix/dht/v2/bep44"
	"github.com/anacrolix/dht/v2/exts/getput"
	"github.com/anacrolix/dht/v2/krpc"
)

type lkLim struct {
	lim   string         // inf | hour | 10min | zero | tick
	burst int            //
	tick  time.Duration  // lim == tick
	open  bool           // SetLimit(rate.Inf) immediately before the stop action
	two   bool           // stop action close: StopTraversing, wait until nothing moves, Close
	ann   map[int]string // node index -> its answer to announce_peer / put (default ack)
	qerr  map[int]int    // node index -> KRPC error code of its answer to traversal queries (the node's kind is "err")
	rot   bool           // a node hands out a fresh token with every further traversal query it gets
}

func (l *lkLim) String() string {
	var ss []string
	if l.lim != "inf" {
		s := fmt.Sprintf("limiter=%s/burst%d", l.lim, l.burst)
		if l.lim == "tick" {
			s = fmt.Sprintf("limiter=every%v/burst%d", l.tick, l.burst)
		}
		ss = append(ss, s)
	}
	if l.open {
		ss = append(ss, "opened-before-stop")
	}
	if l.two {
		ss = append(ss, "stoptraversing-then-close")
	}
	var ks []int
	for k := range l.ann {
		ks = append(ks, k)
	}
	sort.Ints(ks)
	for _, k := range ks {
		ss = append(ss, fmt.Sprintf("ann%d=%s", k, l.ann[k]))
	}
	ks = nil
	for k := range l.qerr {
		ks = append(ks, k)
	}
	sort.Ints(ks)
	for _, k := range ks {
		ss = append(ss, fmt.Sprintf("q%d=e%d", k, l.qerr[k]))
	}
	if l.rot {
		ss = append(ss, "token-rotation")
	}
	if len(ss) == 0 {
		return "none"
	}
	return strings.Join(ss, ",")
}

func (l *lkLim) limiter() *rate.Limiter {
	switch l.lim {
	case "hour":
		return rate.NewLimiter(rate.Every(time.Hour), l.burst)
	case "10min":
		return rate.NewLimiter(rate.Every(10*time.Minute), l.burst)
	case "zero":
		return rate.NewLimiter(0, l.burst)
	case "tick":
		return rate.NewLimiter(rate.Every(l.tick), l.burst)
	}
	return rate.NewLimiter(rate.Inf, 1)
}

// waits: a rate-limited send that finds the burst used up waits, and only a cancellation ends the wait in time
func (l *lkLim) waits() bool { return (l.lim == "hour" || l.lim == "10min") && l.burst > 0 }

// ---------------------------------------------------------------- one run

type lkLimRun struct {
	c       *lkCase
	st      *lkState
	report  bool
	lim     *rate.Limiter
	pending []*lkQuery
	mu      sync.Mutex
	written map[string]bool // "addr/t" of every query datagram that reached the socket
	perNode map[string]int  // scheduler only: traversal queries per destination so far
	rank    map[string]int  // scheduler only: "addr/t" -> number of earlier traversal queries to that destination
	dgrams  map[string][]string
	nIssued int
	nodeIdx map[string]int
}

func (x *lkLimRun) say(format string, a ...interface{}) {
	if x.report {
		emit(format, a...)
		out.Flush()
	}
}

func lkDgramKey(addr *net.UDPAddr, t string) string { return addr.String() + "/" + t }

type lkDgram struct {
	b    []byte
	from *net.UDPAddr
}

// annAnswers: what the destination of an announce_peer / put sends back, per the case's script
func (x *lkLimRun) annAnswers(q *lkQuery) (out []lkDgram) {
	n := q.node
	if n == nil {
		return nil
	}
	kind := "ack"
	if i, ok := x.nodeIdx[q.dest.String()]; ok {
		if k := x.c.lim.ann[i]; k != "" {
			kind = k
		}
	}
	if n.annSilent {
		kind = "silent"
	}
	ack := func(t string) []byte {
		b, _ := bencode.Marshal(krpc.Msg{T: t, Y: "r", R: &krpc.Return{ID: n.id}})
		return b
	}
	kerr := func(code int) []byte {
		b, _ := bencode.Marshal(krpc.Msg{T: q.t, Y: "e", E: &krpc.Error{Code: code, Msg: fmt.Sprintf("no-%d", code)}})
		return b
	}
	raw := func(e string) []byte {
		return []byte(fmt.Sprintf("d1:e%s1:t%d:%s1:y1:ee", e, len(q.t), q.t))
	}
	switch kind {
	case "ack":
		out = append(out, lkDgram{ack(q.t), q.dest})
	case "silent":
	case "e201", "e202", "e203", "e204", "e205", "e301", "e302":
		var code int
		fmt.Sscanf(kind, "e%d", &code)
		out = append(out, lkDgram{kerr(code), q.dest})
	case "e-str": // "Represented as a string or list in bencode"
		out = append(out, lkDgram{raw("9:bad token"), q.dest})
	case "e-int":
		out = append(out, lkDgram{raw("i203e"), q.dest})
	case "e-list-swapped":
		out = append(out, lkDgram{raw("l9:bad tokeni203ee"), q.dest})
	case "e-list-empty":
		out = append(out, lkDgram{raw("le"), q.dest})
	case "e-missing":
		out = append(out, lkDgram{[]byte(fmt.Sprintf("d1:t%d:%s1:y1:ee", len(q.t), q.t)), q.dest})
	case "other-port":
		out = append(out, lkDgram{ack(q.t), &net.UDPAddr{IP: q.dest.IP, Port: q.dest.Port + 10000}})
	case "other-ip":
		out = append(out, lkDgram{ack(q.t), &net.UDPAddr{IP: net.IPv4(10, 99, byte(q.dest.Port>>8), byte(q.dest.Port)).To4(), Port: q.dest.Port}})
	case "e203-other-port":
		out = append(out, lkDgram{kerr(203), &net.UDPAddr{IP: q.dest.IP, Port: q.dest.Port + 10000}})
	case "wrong-t":
		out = append(out, lkDgram{ack(q.t + "x"), q.dest})
	case "ack-twice":
		out = append(out, lkDgram{ack(q.t), q.dest}, lkDgram{ack(q.t), q.dest})
	case "e203-then-ack":
		out = append(out, lkDgram{kerr(203), q.dest}, lkDgram{ack(q.t), q.dest})
	case "e203-twice":
		out = append(out, lkDgram{kerr(203), q.dest}, lkDgram{kerr(203), q.dest})
	case "query-back": // a query with the same t comes back instead of a response
		b, _ := bencode.Marshal(krpc.Msg{T: q.t, Y: "q", Q: "ping", A: &krpc.MsgArgs{ID: n.id}})
		out = append(out, lkDgram{b, q.dest})
	default:
		panic("announce answer kind " + kind)
	}
	return
}

// annCompletes: some datagram of the answer ends the query (a decodable non-query message from the destination
// echoing t); otherwise the query ends by its (short) timer.
func (x *lkLimRun) annCompletes(q *lkQuery) bool {
	for _, d := range x.annAnswers(q) {
		if d.from.String() != q.dest.String() {
			continue
		}
		if m, ok := decodeLikeServer(d.b); ok && m.T == q.t && m.Y != "q" {
			return true
		}
	}
	return false
}

// replyBytes: the node's answer to a traversal query; rank = number of earlier traversal queries that node got
func (x *lkLimRun) replyBytes(q *lkQuery, rank int) []byte {
	n := q.node
	if n == nil {
		return nil
	}
	if i, ok := x.nodeIdx[q.dest.String()]; ok && n.kind == "err" {
		if code := x.c.lim.qerr[i]; code != 0 {
			b, _ := bencode.Marshal(krpc.Msg{T: q.t, Y: "e", E: &krpc.Error{Code: code, Msg: "no"}})
			return b
		}
	}
	b := x.st.replyFor(q)
	if b == nil || !x.c.lim.rot || rank == 0 {
		return b
	}
	m, ok := decodeLikeServer(b)
	if !ok || m.R == nil || m.R.Token == nil {
		return b
	}
	t := fmt.Sprintf("%s~%d", *m.R.Token, rank)
	m.R.Token = &t
	b2, err := bencode.Marshal(*m)
	if err != nil {
		return b
	}
	if _, ok := decodeLikeServer(b2); !ok {
		return b
	}
	return b2
}

func (x *lkLimRun) delayFor(q *lkQuery) time.Duration {
	if q.node == nil {
		return 2 * time.Millisecond
	}
	if lkIsAnnounceKind(q.q) {
		if x.annCompletes(q) {
			return time.Hour
		}
		return 2 * time.Millisecond
	}
	if x.replyBytes(q, 0) == nil {
		return 2 * time.Millisecond
	}
	return time.Hour
}

func (x *lkLimRun) onWrite(b []byte, addr *net.UDPAddr) {
	st := x.st
	m, ok := decodeLikeServer(b)
	if !ok || m.Y != "q" {
		return
	}
	q := &lkQuery{n: -1, t: m.T, q: m.Q, dest: addr, msg: m, node: st.byAddr[addr.String()]}
	x.mu.Lock()
	x.written[lkDgramKey(addr, m.T)] = true
	x.mu.Unlock()
	if st.lockGate() {
		st.gateCur = x.delayFor(q)
		st.gatePh = 0
	}
	st.queue <- q
}

// queued: the transactions that are registered and whose datagram has not reached the socket
func (x *lkLimRun) queued() int {
	pend := x.st.s.VerifPending()
	x.mu.Lock()
	defer x.mu.Unlock()
	n := 0
	for _, p := range pend {
		if !x.written[p[0]+"/"+p[1]] {
			n++
		}
	}
	return n
}

// stableQueued: the same once nothing moves any more (a query between its registration and its write is not one
// that waits for the limiter)
func (x *lkLimRun) stableQueued() int {
	lastQ, lastG, same := -1, -1, 0
	for i := 0; i < 3000 && same < 12; i++ {
		time.Sleep(50 * time.Microsecond)
		q, g := x.queued(), runtime.NumGoroutine()
		if q == lastQ && g == lastG {
			same++
		} else {
			lastQ, lastG, same = q, g, 0
		}
	}
	return lastQ
}

func (x *lkLimRun) drain() {
	st, c := x.st, x.c
	for {
		select {
		case q := <-st.queue:
			key := q.dest.String()
			switch q.q {
			case "announce_peer", "put":
				sd := lkSend{dest: addrTok(q.dest), token: hx([]byte(q.msg.A.Token)), destAddr: q.dest}
				if q.q == "announce_peer" {
					sd.ih = hx(q.msg.A.InfoHash[:])
					if q.msg.A.Port != nil {
						sd.port = *q.msg.A.Port
					}
					sd.implied = b2i(q.msg.A.ImpliedPort)
				} else {
					sd.ih = hx(c.target[:])
					if q.msg.A.Seq != nil {
						sd.seq = *q.msg.A.Seq
					}
				}
				st.sends = append(st.sends, sd)
				x.dgrams[key] = append(x.dgrams[key], q.q+":"+string(q.msg.A.Token))
				// model: one of the sends the finished lookup still expects (drv_lookups_limiter.ml)
				x.say("lksent %s %s %s %d %d %d => ok", sd.dest, sd.token, sd.ih, sd.port, sd.implied, sd.seq)
				for _, d := range x.annAnswers(q) {
					st.conn.inject(d.b, d.from, 2*time.Second)
				}
			default:
				q.n = st.nq
				st.nq++
				x.nIssued++
				x.rank[lkDgramKey(q.dest, q.t)] = x.perNode[key]
				x.perNode[key]++
				x.dgrams[key] = append(x.dgrams[key], q.q)
				x.say("lkissue %d %s => ok", q.n, addrTok(q.dest))
				if g := st.garbageFor(q); g != nil {
					st.conn.inject(g, q.dest, 2*time.Second)
				}
				if x.replyBytes(q, 0) != nil {
					x.pending = append(x.pending, q)
				}
			}
		default:
			return
		}
	}
}

// reply prints the lkreply line of q and hands the datagram to the server; it returns whether it carries an r dict
func (x *lkLimRun) reply(q *lkQuery) bool {
	st := x.st
	b := x.replyBytes(q, x.rank[lkDgramKey(q.dest, q.t)])
	m, _ := decodeLikeServer(b)
	hasR := m.R != nil
	id, tok, payload, v, k, sig, seq := "-", "none", "-", "-", "-", "-", "-"
	if hasR {
		id = hx(m.R.ID[:])
		if m.R.Token != nil {
			tok = hx([]byte(*m.R.Token))
		}
		payload = dumpReturn(m.R)
		if len(m.R.V) > 0 {
			v = hx(m.R.V)
		}
		if !isZero(m.R.K[:]) {
			k = hx(m.R.K[:])
		}
		if !isZero(m.R.Sig[:]) {
			sig = hx(m.R.Sig[:])
		}
		if m.R.Seq != nil {
			seq = fmt.Sprint(*m.R.Seq)
		}
	}
	x.say("lkreply %d %d %s %s %s %s %s %s %s => ok", q.n, b2i(hasR), id, tok, payload, v, k, sig, seq)
	if !st.conn.inject(b, q.dest, 3*time.Second) {
		oracle("C01", "serve-loop-stuck", "reply not taken case=%d %s", x.c.idx, x.c.name())
	}
	if hasR {
		st.served[q.dest.String()]++
	}
	return hasR
}

func runLookupLimOnce(c *lkCase, rep int, report bool) (*lkState, lkResult) {
	lm := c.lim
	r := (&rng{s: c.sub}).sub(0)
	st := &lkState{c: c, rep: rep, conn: newFakeConn(), queue: make(chan *lkQuery, 8192), gateMu: make(chan struct{}, 1),
		byAddr: map[string]*lkNode{}, served: map[string]int{}, consDone: make(chan struct{})}
	x := &lkLimRun{c: c, st: st, report: report, lim: lm.limiter(), written: map[string]bool{}, perNode: map[string]int{},
		rank: map[string]int{}, dgrams: map[string][]string{}, nodeIdx: map[string]int{}}
	for i, n := range c.nodes {
		st.byAddr[n.addr.String()] = n
		x.nodeIdx[n.addr.String()] = i
	}
	st.conn.onWrite = x.onWrite
	cfg := &dht.ServerConfig{
		Conn:             st.conn,
		NoSecurity:       true,
		QueryResendDelay: st.resendDelay,
		Logger:           log.NewLogger().FilterLevel(log.Critical),
		SendLimiter:      x.lim,
		Store:            bep44.NewMemory(),
		Exp:              2 * time.Hour,
		StartingNodes: func() ([]dht.Addr, error) {
			switch c.sn {
			case "err":
				return nil, errors.New("resolver failed")
			case "empty":
				return nil, nil
			}
			var as []dht.Addr
			for _, i := range c.start {
				as = append(as, dht.NewAddr(c.nodes[i].addr))
			}
			return as, nil
		},
	}
	cfg.NodeId[0], cfg.NodeId[19] = 0x42, 0x24
	s, err := dht.NewServer(cfg)
	if err != nil {
		panic(err)
	}
	st.s = s
	for atomic.LoadInt64(&st.conn.reads) == 0 {
		time.Sleep(20 * time.Microsecond)
	}

	ctx, cancel := context.WithCancel(context.Background())
	defer cancel()
	var res lkResult
	apiDone := make(chan struct{})
	var a *dht.Announce
	annReady := make(chan struct{})
	switch c.api {
	case "bootstrap":
		go func() {
			_, err := s.BootstrapContext(ctx)
			res.err = err
			close(apiDone)
		}()
	case "announce":
		go func() {
			var opts []dht.AnnounceOpt
			if c.scrape {
				opts = append(opts, dht.Scrape())
			}
			var err error
			if c.viaTrav {
				if c.annOpts {
					opts = append(opts, dht.AnnouncePeer(dht.AnnouncePeerOpts{Port: c.annPort, ImpliedPort: c.annImp}))
				}
				a, err = s.AnnounceTraversal(c.target, opts...)
			} else {
				port, imp := 0, false
				if c.annOpts {
					port, imp = c.annPort, c.annImp
				}
				a, err = s.Announce(c.target, port, imp, opts...)
			}
			res.err = err
			close(annReady)
			if err != nil {
				close(apiDone)
				close(st.consDone)
				return
			}
			go func() { // the consumer: reads to the end
				defer close(st.consDone)
				for pv := range a.Peers {
					st.mu.Lock()
					st.peers = append(st.peers, fmt.Sprintf("%s:%d|%s|%s", ipHex(pv.NodeInfo.Addr.IP), pv.NodeInfo.Addr.Port, hx(pv.NodeInfo.ID[:]), dumpReturn(&pv.Return)))
					st.mu.Unlock()
					atomic.AddInt64(&st.nDeliv, 1)
					if c.slow {
						time.Sleep(2 * time.Millisecond)
					}
				}
			}()
			<-a.Finished()
			close(apiDone)
		}()
	case "get":
		go func() {
			var saltArg []byte
			if c.mutable {
				saltArg = c.salt
			}
			ret, _, err := getput.Get(ctx, c.target, s, c.seqArg, saltArg)
			res.getRet, res.err = ret, err
			close(apiDone)
		}()
	case "put":
		go func() {
			_, err := getput.Put(ctx, c.target, s, c.salt, func(seq int64) bep44.Put {
				atomic.StoreInt64(&res.autoSeq, seq)
				p := bep44.Put{V: c.putValue, Salt: c.salt, Seq: seq}
				if c.mutable {
					var k [32]byte
					copy(k[:], c.pub)
					p.K = &k
					p.Sign(c.priv)
				}
				return p
			})
			res.err = err
			close(apiDone)
		}()
	}
	isDone := func() bool {
		select {
		case <-apiDone:
			return true
		default:
			return false
		}
	}
	if c.api == "announce" {
		<-annReady
	}

	// ---------------- the network scheduler ----------------
	replies := 0
	stopped := false
	queuedAtStop, queuedAtClose := -1, -1
	// The bound of the liveness oracles is the engine's 8 s.  Once four cases of this family have hit it in this
	// process the check has its witnesses: the rest of a wedged run is not worth 8 s per case any more (2 s then).
	bound := 8 * time.Second
	if atomic.LoadInt32(&lkLimStuck) >= 4 {
		bound = 2 * time.Second
	}
	deadline := time.Now().Add(bound)
	settle := func() {
		time.Sleep(2 * time.Millisecond)
		lkStableGoroutines()
		x.drain()
	}
	for {
		x.drain()
		if !stopped && c.stopAt >= 0 && len(x.pending) == 0 && isDone() {
			stopped = true // the lookup ended before the stop point came: nothing to stop
		}
		if !stopped && c.stopAt >= 0 && !isDone() {
			stopNow := false
			if lm.waits() {
				// only with a query queued behind the limiter in sight (and, for a stop point beyond the replies the
				// limiter lets happen, once everything that left has been answered)
				nq := x.stableQueued()
				x.drain()
				if nq > 0 && !isDone() && (replies >= c.stopAt || len(x.pending) == 0) {
					stopNow, queuedAtStop = true, nq
				}
			} else if replies >= c.stopAt && len(x.pending) > 0 {
				// as in lookups.go: while a query to a responsive node is unanswered the traversal cannot stall
				stopNow = true
				queuedAtStop = x.stableQueued()
				x.drain()
			}
			if stopNow {
				stopped = true
				if lm.open {
					x.lim.SetLimit(rate.Inf)
				}
				// The stop event is reported as soon as the call has returned, BEFORE the queue is looked at again: an
				// announce_peer / put line (`lksent`) that follows a stop in the code follows it in the trace.  A traversal
				// query the run loop was in the middle of starting when the stop came shows up after the stop line; the
				// model accepts it as what it is (drv_lookups: a TIssue that precedes the Stop).
				switch c.stopAct {
				case "ctx":
					cancel()
					x.say("lkctx => ok")
					settle()
				case "stoptrav":
					if a != nil {
						a.StopTraversing()
						x.say("lkstoptrav => ok")
						settle()
					}
				case "close":
					if a != nil {
						if lm.two {
							a.StopTraversing()
							x.say("lkstoptrav => ok")
							settle()
							// the traversal's queries are cancelled, the announce_peer queries queue behind the limiter
							queuedAtClose = x.stableQueued()
							x.drain()
						}
						a.Close()
						x.say("lkclose => ok")
						settle()
					}
				}
				if c.api != "bootstrap" {
					x.pending = nil // the in-flight queries are cancelled with the traversal
				}
				continue
			}
		}
		if stopped && c.api != "bootstrap" {
			x.pending = nil
		}
		if len(x.pending) > 0 {
			i := r.intn(len(x.pending))
			q := x.pending[i]
			x.pending = append(x.pending[:i], x.pending[i+1:]...)
			before := atomic.LoadInt64(&st.nDeliv)
			hasR := x.reply(q)
			replies++
			if c.api == "announce" && hasR && !c.slow {
				dl := time.Now().Add(2 * time.Second)
				for atomic.LoadInt64(&st.nDeliv) == before && time.Now().Before(dl) {
					time.Sleep(20 * time.Microsecond)
				}
				if atomic.LoadInt64(&st.nDeliv) == before {
					oracle("C16", "response-not-delivered", "get_peers response of %v not on Peers within 2s case=%d %s (%v) sub=%d", q.dest, c.idx, c.name(), lm, c.sub)
					deadline = deadline.Add(2 * time.Second) // the harness's own wait is not the lookup's time
				}
			}
			for i := 0; i < 20; i++ {
				runtime.Gosched()
			}
			time.Sleep(150 * time.Microsecond)
			continue
		}
		if isDone() && len(st.queue) == 0 {
			// Bootstrap's queries outlive a cancelled ctx: under a trickling limiter they still leave, one by one
			if c.api != "bootstrap" || x.stableQueued() == 0 {
				x.drain()
				if len(x.pending) == 0 && len(st.queue) == 0 {
					break
				}
				continue
			}
		}
		if time.Now().After(deadline) {
			res.stuck = true
			atomic.AddInt32(&lkLimStuck, 1)
			prop, key := "C14", "lookup-did-not-return:"+c.api
			if lm.lim != "inf" {
				key += ":send-limiter"
			}
			if c.api == "announce" {
				prop, key = "C16", "peers-not-closed"
				if lm.lim != "inf" {
					key = "peers-not-closed:queued-behind-send-limiter"
				}
				oracle("C14", "lookup-did-not-return:announce", "no Finished() within %v case=%d %s (%v) stop=%s@%d queued-at-stop=%d sub=%d", bound, c.idx, c.name(), lm, c.stopAct, c.stopAt, queuedAtStop, c.sub)
			}
			oracle(prop, key, "no end within %v case=%d %s (%v) stop=%s@%d queries-queued-behind-the-limiter-at-the-stop=%d still-queued=%d sub=%d replay: h -seed %d lookups -only %d",
				bound, c.idx, c.name(), lm, c.stopAct, c.stopAt, queuedAtStop, x.queued(), c.sub, lkLimSeed, c.idx)
			break
		}
		select {
		case q := <-st.queue:
			st.queue <- q // put back and let drain() number it
		case <-apiDone:
		case <-time.After(200 * time.Microsecond):
		}
	}
	x.drain()

	// ---------------- results (as in runLookupOnce) ----------------
	switch c.api {
	case "bootstrap":
		res.res = lkErrClass(res.err, "ok")
	case "announce":
		if res.err != nil {
			res.res = "start"
		} else {
			res.res = "ok"
			if res.stuck {
				// unblock whatever can be unblocked so that the case can be cleaned up
				a.Close()
				go func() {
					for range a.Peers {
					}
				}()
				select {
				case <-a.Finished():
				case <-time.After(300 * time.Millisecond):
				}
			}
			if !res.stuck {
				select {
				case <-st.consDone:
					res.closed = true
				case <-time.After(2 * time.Second):
				}
			}
			if !res.closed && !res.stuck {
				oracle("C16", "peers-not-closed", "Finished() but Peers still open case=%d %s (%v) sub=%d", c.idx, c.name(), lm, c.sub)
			}
		}
	case "get":
		if res.err != nil {
			res.res = lkErrClass(res.err, "")
		} else {
			sq := "-"
			if res.getRet.Mutable {
				sq = fmt.Sprint(res.getRet.Seq)
			}
			res.res = fmt.Sprintf("val:%s:%s:%d", sq, hx(res.getRet.V), b2i(res.getRet.Mutable))
		}
	case "put":
		as := atomic.LoadInt64(&res.autoSeq)
		if res.err != nil {
			cl := lkErrClass(res.err, "")
			if cl == "ctx" {
				res.res = fmt.Sprintf("ctx:%d", as)
			} else {
				res.res = cl
			}
		} else {
			res.res = fmt.Sprintf("ok:%d", as)
		}
	}
	if report {
		st.oracles(&res)
		x.oracles(&res)
		var ds []string
		for k, v := range x.dgrams {
			ds = append(ds, fmt.Sprintf("%s=%d", k, len(v)))
		}
		sort.Strings(ds)
		emit("# lklim case=%d %s (%v) stop=%s@%d replies=%d queries=%d queued-at-stop=%d queued-at-close=%d sends=%d stuck=%d res=%s datagrams-per-node: %s",
			c.idx, c.name(), lm, c.stopAct, c.stopAt, replies, x.nIssued, queuedAtStop, queuedAtClose, len(st.sends), b2i(res.stuck), res.res, strings.Join(ds, " "))
	}
	// ---------------- quiescence ----------------
	dl := time.Now().Add(2 * time.Second)
	if res.stuck {
		dl = time.Now().Add(300 * time.Millisecond)
	}
	for s.Stats().OutstandingTransactions != 0 && time.Now().Before(dl) {
		time.Sleep(100 * time.Microsecond)
	}
	if n := s.Stats().OutstandingTransactions; n != 0 {
		oracle("C14", "transaction-leak", "outstanding=%d after %s ended case=%d %s (%v) sub=%d", n, c.api, c.idx, c.name(), lm, c.sub)
	}
	cancel()
	s.Close()
	return st, res
}

// oracles of this family on top of lkState.oracles (implementation only).  An announce_peer / put must carry a
// token the destination issued in reply to a query of THIS lookup that was answered before the announce_peer left;
// with token rotation that is a stronger statement than "the node's token".
func (x *lkLimRun) oracles(res *lkResult) {
	c, st := x.c, x.st
	if res.err != nil && c.api == "announce" {
		return
	}
	tag := fmt.Sprintf("case=%d %s (%v) sub=%d", c.idx, c.name(), c.lim, c.sub)
	if c.api == "put" {
		got := map[string]int{}
		for _, sd := range st.sends {
			got[sd.dest]++
			if got[sd.dest] == 2 {
				oracle("C16", "put-sent-twice", "put to %s sent %d times: %s", sd.dest, got[sd.dest], tag)
			}
		}
	}
}

// ---------------------------------------------------------------- cases

var lkLimSeed uint64
var lkLimStuck int32 // cases of this family that hit the liveness bound in this process

func lookupLimiterCases(seed uint64, tier string, base int) []lkCase {
	lkLimSeed = seed
	var cs []lkCase
	root := &rng{s: seed ^ 0x11b17e5}
	add := func(c lkCase) {
		c.idx = base + len(cs)
		if c.reps == 0 {
			c.reps = 1
		}
		c.sn = "ok"
		c.consStop = -1
		c.sub = root.sub(c.idx).next() | 1
		cs = append(cs, c)
	}
	mkTarget := func(r *rng) (t [20]byte) { copy(t[:], r.bytes(20)); return }
	mul := 1
	if tier == "thorough" {
		mul = 6
	}
	type annOpt struct {
		opts    bool
		port    int
		imp     bool
		scrape  bool
		viaTrav bool
		name    string
	}
	annOn := []annOpt{
		{true, 6881, false, false, false, "port"},
		{true, 0, true, false, true, "traversal-api-implied"},
		{true, 6881, true, true, false, "port+implied+scrape"},
		{true, 6881, false, false, true, "traversal-api-port"},
	}
	annOff := []annOpt{
		{false, 0, false, false, false, "announce-off"},
		{false, 0, false, true, true, "traversal-api-scrape-only"},
		{true, 0, false, false, true, "traversal-api-port0"},
	}
	mkAnn := func(o annOpt, target [20]byte, nodes []*lkNode, start []int, lm *lkLim, act string, at int, desc string) lkCase {
		return lkCase{api: "announce", target: target, annOpts: o.opts, annPort: o.port, annImp: o.imp, scrape: o.scrape, viaTrav: o.viaTrav,
			nodes: nodes, start: start, stopAt: at, stopAct: act, lim: lm, desc: desc}
	}
	// a network whose first `ns` nodes are the starting nodes
	mkNet := func(r *rng, n int, target [20]byte, flavours bool) []*lkNode {
		nodes := genNet(r, n, target)
		if flavours {
			for i, nd := range nodes {
				switch r.intn(12) {
				case 0:
					nd.token = nil
				case 1:
					nd.kind = "silent"
				case 2:
					nd.values = []krpc.NodeAddr{{IP: net.IPv4(8, 7, byte(i), 1).To4(), Port: 7000 + i}}
				case 3:
					nd.ghosts = 1 + r.intn(2)
				case 4:
					empty := ""
					nd.token = &empty
				}
			}
			nodes[0].kind = "r"
		}
		return nodes
	}
	starts := func(k int) []int {
		s := make([]int, k)
		for i := range s {
			s[i] = i
		}
		return s
	}

	// ================= 1. a SendLimiter that limits =================
	// ---- announce, limiters whose waits only a cancellation ends ----
	type wl struct {
		lim   string
		burst int
	}
	waiters := []wl{{"hour", 1}, {"hour", 2}, {"hour", 3}, {"10min", 1}, {"10min", 2}}
	type stopv struct {
		act       string
		at        int
		open, two bool
		on        bool // announcing on
		name      string
	}
	stops := []stopv{
		{"close", 0, false, false, true, "close@0"},
		{"stoptrav", 0, true, false, true, "stoptraversing@0-limiter-opened"},
		{"close", 1, false, true, true, "stoptraversing-then-close@1"},
		{"close", 99, false, false, true, "close@all-answered"},
		{"stoptrav", 1, true, false, false, "stoptraversing@1-limiter-opened-announce-off"},
		{"stoptrav", 99, false, false, false, "stoptraversing@all-answered-announce-off"},
		{"stoptrav", 99, true, false, true, "stoptraversing@all-answered-limiter-opened"},
		{"close", 0, false, true, true, "stoptraversing-then-close@0"},
	}
	ci := 0
	for wi, w := range waiters {
		for si, sv := range stops {
			if mul == 1 && (wi+si)%2 == 1 && !(wi == 0 && si < 3) {
				continue
			}
			for rep := 0; rep < mul; rep++ {
				r := root.sub(7000 + 100*wi + 10*si + rep)
				n := 5 + r.intn(5)
				target := mkTarget(r)
				nodes := mkNet(r.sub(1), n, target, rep > 0)
				var o annOpt
				if sv.on {
					o = annOn[ci%len(annOn)]
				} else {
					o = annOff[ci%len(annOff)]
				}
				ci++
				lm := &lkLim{lim: w.lim, burst: w.burst, open: sv.open, two: sv.two}
				c := mkAnn(o, target, nodes, starts(3+r.intn(2)), lm, sv.act, sv.at,
					fmt.Sprintf("send-limiter-%s-burst%d-%s-%s", w.lim, w.burst, sv.name, o.name))
				c.slow = rep%3 == 2
				add(c)
			}
		}
	}
	// ---- repeated: nothing may accumulate over announces closed while queries wait for the limiter ----
	{
		r := root.sub(7900)
		target := mkTarget(r)
		nodes := mkNet(r, 6, target, false)
		add(lkCase{api: "announce", target: target, annOpts: true, annPort: 6881, nodes: nodes, start: starts(4), stopAt: 1, stopAct: "close",
			reps: 6, lim: &lkLim{lim: "hour", burst: 2}, desc: "send-limiter-hour-burst2-close@1-repeated"})
	}
	// ---- announce, the exact-budget limiter: a send beyond the budget fails at once ----
	for bi := 0; bi < 4*mul; bi++ {
		r := root.sub(8000 + bi)
		n := 5 + r.intn(5)
		target := mkTarget(r)
		nodes := mkNet(r.sub(1), n, target, bi >= 4)
		b := bi % 4
		lm := &lkLim{lim: "zero", burst: b}
		switch {
		case b == 0: // nothing ever leaves: no responder, nothing to announce to, the announce ends by itself
			o := annOn[bi%len(annOn)]
			add(mkAnn(o, target, nodes, starts(3), lm, "", -1, fmt.Sprintf("send-limiter-zero-burst0-%s", o.name)))
		case b == 1: // the budget is gone after the first query; the announce ends by itself (announcing off)
			o := annOff[bi%len(annOff)]
			add(mkAnn(o, target, nodes, starts(3), lm, "", -1, fmt.Sprintf("send-limiter-zero-burst1-%s", o.name)))
		case b == 2:
			o := annOn[bi%len(annOn)]
			add(mkAnn(o, target, nodes, starts(3), lm, "close", 1, fmt.Sprintf("send-limiter-zero-burst2-close@1-%s", o.name)))
		default:
			o := annOn[bi%len(annOn)]
			lm.open = true
			add(mkAnn(o, target, nodes, starts(4), lm, "stoptrav", 1, fmt.Sprintf("send-limiter-zero-burst3-stoptraversing@1-limiter-opened-%s", o.name)))
		}
	}
	// the same with an hour limiter of burst 0 (Wait refuses: n exceeds the burst)
	{
		r := root.sub(8100)
		target := mkTarget(r)
		nodes := mkNet(r, 5, target, false)
		add(mkAnn(annOn[0], target, nodes, starts(3), &lkLim{lim: "hour", burst: 0}, "", -1, "send-limiter-hour-burst0-port"))
	}
	// ---- announce, a trickling limiter: every query and every announce_peer waits its turn ----
	for ti := 0; ti < 5*mul; ti++ {
		r := root.sub(8200 + ti)
		n := 4 + r.intn(7)
		target := mkTarget(r)
		nodes := mkNet(r.sub(1), n, target, true)
		lm := &lkLim{lim: "tick", burst: 1 + ti%2, tick: time.Duration(1+ti%4) * time.Millisecond}
		o := annOn[ti%len(annOn)]
		act, at, name := "", -1, "to-the-end"
		switch ti % 5 {
		case 1:
			act, at, name = "stoptrav", 2, "stoptraversing@2"
		case 2:
			act, at, name = "close", 1, "close@1"
		case 3:
			o = annOff[ti%len(annOff)]
		}
		c := mkAnn(o, target, nodes, starts(3), lm, act, at, fmt.Sprintf("send-limiter-every%v-burst%d-%s-%s", lm.tick, lm.burst, name, o.name))
		c.slow = ti%5 == 4
		add(c)
	}
	// ---- getput.Get / Put and Bootstrap behind a limiter ----
	for gi := 0; gi < 6*mul; gi++ {
		r := root.sub(8400 + gi)
		pub, priv, _ := ed25519.GenerateKey(bytes.NewReader(r.bytes(64)))
		salt := [][]byte{nil, []byte("s")}[gi%2]
		target := sha1.Sum(append(append([]byte(nil), pub...), salt...))
		n := 5 + r.intn(5)
		nodes := genNet(r.sub(1), n, target)
		for i, nd := range nodes {
			if i%2 == 0 {
				seq := int64(1 + i)
				nd.item, nd.genuine, nd.flavour = lkMkItem(pub, priv, salt, seq, fmt.Sprintf("v%d", seq)), true, "genuine"
			}
		}
		c := lkCase{target: target, salt: salt, pub: pub, priv: priv, mutable: true, putValue: "mine", nodes: nodes, start: starts(4)}
		switch gi % 6 {
		case 0:
			c.api, c.stopAt, c.stopAct, c.lim = "get", 1, "ctx", &lkLim{lim: "hour", burst: 2}
			c.desc = "send-limiter-hour-burst2-ctx@1"
		case 1:
			c.api, c.stopAt, c.stopAct, c.lim = "put", 1, "ctx", &lkLim{lim: "hour", burst: 2}
			c.desc = "send-limiter-hour-burst2-ctx@1"
		case 2:
			c.api, c.stopAt, c.stopAct, c.lim = "put", 99, "ctx", &lkLim{lim: "10min", burst: 3}
			c.desc = "send-limiter-10min-burst3-ctx@all-answered"
		case 3:
			c.api, c.stopAt, c.lim = "put", -1, &lkLim{lim: "tick", burst: 1, tick: time.Millisecond}
			c.desc = "send-limiter-every1ms-burst1-to-the-end"
		case 4:
			c.api, c.stopAt, c.lim = "get", -1, &lkLim{lim: "tick", burst: 2, tick: 2 * time.Millisecond}
			c.desc = "send-limiter-every2ms-burst2-to-the-end"
		case 5:
			c.api, c.stopAt, c.stopAct, c.lim = "get", 0, "ctx", &lkLim{lim: "zero", burst: 1}
			c.desc = "send-limiter-zero-burst1-ctx@0"
		}
		add(c)
	}
	// getput.Get ends by itself on an immutable value while the other queries wait for the limiter
	for ii := 0; ii < 2*mul; ii++ {
		r := root.sub(8500 + ii)
		bv, _ := bencode.Marshal(fmt.Sprintf("immutable-behind-limiter-%d", ii))
		it := sha1.Sum(bv)
		n := 5 + r.intn(3)
		nodes := genNet(r, n, it)
		for _, nd := range nodes {
			nd.item, nd.genuine, nd.flavour = &lkItem{v: bv}, true, "genuine-immutable"
		}
		add(lkCase{api: "get", target: it, nodes: nodes, start: starts(4), stopAt: -1, lim: &lkLim{lim: []string{"hour", "10min"}[ii%2], burst: 1 + ii%2},
			desc: fmt.Sprintf("send-limiter-burst%d-immutable-value-ends-the-get", 1+ii%2)})
	}
	for bi := 0; bi < 2*mul; bi++ {
		r := root.sub(8600 + bi)
		n := 4 + r.intn(8)
		var target [20]byte
		target[0], target[19] = 0x42, 0x24
		nodes := genNet(r, n, target)
		for _, nd := range nodes {
			switch r.intn(8) {
			case 0:
				nd.kind = "silent"
			case 1:
				nd.kind = "err"
			}
		}
		nodes[0].kind = "r"
		c := lkCase{api: "bootstrap", target: target, nodes: nodes, start: starts(3), stopAt: -1, lim: &lkLim{lim: "tick", burst: 1, tick: time.Duration(1+bi%3) * time.Millisecond},
			desc: fmt.Sprintf("send-limiter-every%dms-burst1-net%d", 1+bi%3, bi)}
		if bi%2 == 1 {
			c.stopAt, c.stopAct = 1, "ctx"
			c.desc += "-ctx@1"
		}
		add(c)
	}

	// ================= 2. nodes that do not acknowledge announce_peer / put =================
	kinds := []string{"e203", "e201", "e202", "e204", "silent", "other-port", "e-str", "e-int", "e203-then-ack", "ack-twice", "wrong-t", "other-ip",
		"e-list-swapped", "e-list-empty", "e-missing", "e205", "e301", "e203-other-port", "e203-twice", "query-back", "ack", "e302"}
	for ai := 0; ai < 10*mul; ai++ {
		r := root.sub(8800 + ai)
		n := 4 + r.intn(8)
		target := mkTarget(r)
		nodes := mkNet(r.sub(1), n, target, ai%2 == 1)
		lm := &lkLim{lim: "inf", ann: map[int]string{}, qerr: map[int]int{}, rot: ai%3 != 2}
		for i := range nodes {
			switch {
			case ai == 0:
				lm.ann[i] = "e203" // everybody turns the token down
			case ai == 1 && i%2 == 0:
				lm.ann[i] = "e203"
			default:
				lm.ann[i] = kinds[(ai*5+i*3+r.intn(3))%len(kinds)]
			}
			if i > 0 && r.intn(9) == 0 {
				nodes[i].kind = "err"
				lm.qerr[i] = 201 + r.intn(4)
			}
		}
		if ai >= 2 {
			lm.ann[r.intn(n)] = "e203"
		}
		o := annOn[ai%len(annOn)]
		act, at, name := "", -1, ""
		switch ai % 5 {
		case 3:
			act, at, name = "stoptrav", 1+ai%2, fmt.Sprintf("-stoptraversing@%d", 1+ai%2)
		}
		c := mkAnn(o, target, nodes, []int{0, n - 1}, lm, act, at, fmt.Sprintf("announce-answers-net%d-%s%s", ai, o.name, name))
		c.slow = ai%5 == 4
		add(c)
	}
	// the same behind a trickling limiter
	for ai := 0; ai < 2*mul; ai++ {
		r := root.sub(8900 + ai)
		n := 5 + r.intn(5)
		target := mkTarget(r)
		nodes := mkNet(r.sub(1), n, target, false)
		lm := &lkLim{lim: "tick", burst: 1, tick: time.Millisecond, ann: map[int]string{}, rot: true}
		for i := range nodes {
			lm.ann[i] = kinds[(ai+i)%7]
		}
		o := annOn[(ai+1)%len(annOn)]
		add(mkAnn(o, target, nodes, starts(3), lm, "", -1, fmt.Sprintf("announce-answers-behind-limiter-net%d-%s", ai, o.name)))
	}
	// put
	for pi := 0; pi < 3*mul; pi++ {
		r := root.sub(9000 + pi)
		pub, priv, _ := ed25519.GenerateKey(bytes.NewReader(r.bytes(64)))
		salt := [][]byte{nil, []byte("s")}[pi%2]
		target := sha1.Sum(append(append([]byte(nil), pub...), salt...))
		n := 4 + r.intn(6)
		nodes := genNet(r.sub(1), n, target)
		lm := &lkLim{lim: "inf", ann: map[int]string{}, qerr: map[int]int{}, rot: pi%2 == 0}
		for i, nd := range nodes {
			if i%3 == 0 {
				seq := int64(2 + i)
				nd.item, nd.genuine, nd.flavour = lkMkItem(pub, priv, salt, seq, fmt.Sprintf("v%d", seq)), true, "genuine"
			}
			lm.ann[i] = kinds[(pi*7+i*2+r.intn(2))%len(kinds)]
			if i > 0 && r.intn(8) == 0 {
				nd.kind = "err"
				lm.qerr[i] = 201 + r.intn(4)
			}
		}
		lm.ann[0] = []string{"e203", "e301", "e302"}[pi%3]
		add(lkCase{api: "put", target: target, salt: salt, pub: pub, priv: priv, mutable: true, putValue: "mine", nodes: nodes, start: []int{0, n - 1},
			stopAt: -1, lim: lm, desc: fmt.Sprintf("put-answers-net%d", pi)})
	}
	return cs
}
