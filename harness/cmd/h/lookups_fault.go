package main

// lookups_fault.go -- two input classes of the "lookups" engine that the scripted network of lookups.go did not
// produce.  Both reuse the engine's line protocol unchanged (lkbegin / lkissue / lkreply / lkctx / ... / lkend are
// recomputed by the extracted model, drv_lookups.ml) and its implementation-only oracles (lkState.oracles).
//
// 1. Socket write faults (C16 "always finishes", C14 "for every timing of ... socket write errors").
//    The PacketConn handed to the Server fails WriteTo for chosen (destination, query kind) pairs: persistently
//    for a candidate's address (network unreachable, an IPv6 candidate on an IPv4-only socket, a listed node that
//    does not exist), only for the announce_peer / put that follows a successful get_peers / get, as a short
//    write (n < len, nil error), for the i-th write of the whole run whatever its destination, for every write.
//    What the code did is observable at the WriteTo call itself:
//      * a failed write of a traversal query is reported as `lkissue` (DoQuery was started for that address) that
//        never gets a reply -- for the model exactly a query to a node that stays silent: it returns without a
//        response when the run is finished;
//      * a failed write of announce_peer / put is reported among the `sends` of `lkend` with destination, token,
//        infohash, port: the code DID address that node with that token, which is what C16 speaks about.
//    So the model decides the closest set, the announce_peer set, Peers, Finished and the result exactly as for
//    the fault-free classes, and the engine's bounded waits (8 s per lookup, transactions and goroutines back to
//    the baseline) are the liveness oracles: whatever writes fail, the lookup ends.
//    A write that fails is not followed by QueryResendDelay calls in a single-try query, so the write / delay
//    pairing of lookups.go (lockGate) is not touched by a failing write.
//
// 2. A busy Get consumer (C12 client side "... among those the one with the highest sequence number, whatever
//    the remote nodes reply ... in any order").  getput.Get logs every value it receives through the logger of the
//    CALLER's context.  The cases hand Get a context whose logger has a handler that blocks (barrier) or sleeps:
//    while the consumer is inside the handler the network goes on answering the other in-flight queries, in a
//    chosen order (stale first / fresh first / the freshest last), and the handler is released only when the
//    network has nothing left to do.  The oracle is the engine's: the value returned is the verified one with the
//    highest seq among everything that was served (client-not-highest-seq / client-returned-unvouched-result) and
//    the model's result line.  It holds for the code under every interleaving, because a DoQuery cannot return --
//    and the traversal cannot stall -- before its verified value has been taken by the consumer.
//
// Everything is derived from the seed PRNG; the only real-time elements are the engine's own bounded waits.

import (
	"bytes"
	"context"
	"crypto/ed25519"
	"crypto/sha1"
	"errors"
	"fmt"
	"net"
	"sort"
	"strings"
	"sync"
	"sync/atomic"
	"time"

	"github.com/anacrolix/log"
	"github.com/anacrolix/torrent/bencode"

	"github.com/anacrolix/dht/v2/krpc"
)

type lkFault struct {
	wq       map[int]string // node index -> fault of every traversal query (get_peers / get / find_node) written to it: "err" | "short"
	wann     map[int]string // node index -> fault of every announce_peer / put written to it
	wUnknown string         // fault of writes to addresses that belong to no node of the network (listed ghosts)
	wV6      string         // fault of every write to a non-IPv4 destination (address family the socket does not support)
	nth      map[int]string // 1-based index among ALL query writes of the run -> fault (whatever the destination turns out to be)
	hold     string         // get: handler of the caller's context logger: "" (none) | "every" | "first" | "sleep"
	order    string         // order in which the network answers: "" seeded random | "asc" | "desc" | "fresh-last" (by genuine seq)
}

func (f *lkFault) String() string {
	if f == nil {
		return "-"
	}
	var ss []string
	mp := func(name string, m map[int]string) {
		var ks []int
		for k := range m {
			ks = append(ks, k)
		}
		sort.Ints(ks)
		for _, k := range ks {
			ss = append(ss, fmt.Sprintf("%s%d=%s", name, k, m[k]))
		}
	}
	mp("q", f.wq)
	mp("ann", f.wann)
	mp("nth", f.nth)
	if f.wUnknown != "" {
		ss = append(ss, "unknown="+f.wUnknown)
	}
	if f.wV6 != "" {
		ss = append(ss, "v6="+f.wV6)
	}
	if f.hold != "" {
		ss = append(ss, "hold="+f.hold)
	}
	if f.order != "" {
		ss = append(ss, "order="+f.order)
	}
	if len(ss) == 0 {
		return "none"
	}
	return strings.Join(ss, ",")
}

type lkFaultState struct {
	mu       sync.Mutex
	nodeIdx  map[string]int  // addr string -> node index
	seen     map[string]bool // addr/t of writes that failed (a retry of the same transaction is not a new query)
	nwrites  int             // query writes so far
	failedQ  int             // traversal query writes failed (distinct transactions)
	failedA  int             // announce_peer / put writes failed (distinct transactions)
	rewrites int             // failed writes repeated for a transaction that had failed before
	held     chan struct{}   // non-nil while the consumer sits in the log handler
	calls    int32
	holds    int
	idle     int  // consecutive idle rounds of the network scheduler while the handler is held
	settled  bool // ordered cases: the initial burst of queries has been waited for
}

// ---------------------------------------------------------------- the faulty socket

type lkFaultConn struct {
	*fakeConn
	st *lkState
}

func (st *lkState) packetConn() net.PacketConn {
	f := st.c.fault
	if f == nil {
		return st.conn
	}
	fx := &lkFaultState{nodeIdx: map[string]int{}, seen: map[string]bool{}}
	for i, n := range st.c.nodes {
		fx.nodeIdx[n.addr.String()] = i
	}
	st.fx = fx
	if len(f.wq) == 0 && len(f.wann) == 0 && len(f.nth) == 0 && f.wUnknown == "" && f.wV6 == "" {
		return st.conn
	}
	return &lkFaultConn{fakeConn: st.conn, st: st}
}

func lkIsAnnounceKind(q string) bool { return q == "announce_peer" || q == "put" }

func (fc *lkFaultConn) WriteTo(b []byte, addr net.Addr) (int, error) {
	st := fc.st
	f, fx := st.c.fault, st.fx
	ua, _ := addr.(*net.UDPAddr)
	m, ok := decodeLikeServer(b)
	if !ok || m.Y != "q" || ua == nil {
		return fc.fakeConn.WriteTo(b, addr)
	}
	fx.mu.Lock()
	fx.nwrites++
	kind := f.nth[fx.nwrites]
	if i, known := fx.nodeIdx[ua.String()]; known {
		if k := f.wq[i]; k != "" && !lkIsAnnounceKind(m.Q) {
			kind = k
		}
		if k := f.wann[i]; k != "" && lkIsAnnounceKind(m.Q) {
			kind = k
		}
	} else if f.wUnknown != "" {
		kind = f.wUnknown
	}
	if f.wV6 != "" && ua.IP.To4() == nil {
		kind = f.wV6
	}
	if kind == "" {
		fx.mu.Unlock()
		return fc.fakeConn.WriteTo(b, addr)
	}
	key := ua.String() + "/" + m.T
	first := !fx.seen[key]
	fx.seen[key] = true
	switch {
	case !first:
		fx.rewrites++
	case lkIsAnnounceKind(m.Q):
		fx.failedA++
	default:
		fx.failedQ++
	}
	fx.mu.Unlock()
	if first {
		// node == nil: nobody answers it (replyFor / garbageFor / the announce_peer reply in drain all skip it)
		st.queue <- &lkQuery{n: -1, t: m.T, q: m.Q, dest: ua, msg: m, node: nil}
	}
	if kind == "short" {
		return len(b) - 1, nil
	}
	return 0, errors.New("sendto: network is unreachable (injected)")
}

// ---------------------------------------------------------------- the busy consumer

type lkHoldHandler struct{ st *lkState }

func (h lkHoldHandler) Handle(log.Record) {
	st := h.st
	fx := st.fx
	n := atomic.AddInt32(&fx.calls, 1)
	switch st.c.fault.hold {
	case "sleep":
		time.Sleep(3 * time.Millisecond)
		return
	case "first":
		if n > 1 {
			return
		}
	}
	ch := make(chan struct{})
	fx.mu.Lock()
	fx.held = ch
	fx.holds++
	fx.mu.Unlock()
	select {
	case <-ch:
	case <-time.After(5 * time.Second): // the code under test is never wedged by the harness
	}
}

// apiCtx: the context handed to getput.Get.  Only Get's own receive loop logs through the caller's context (the
// traversal's query goroutines use the traversal's context), so only the consumer is slowed down.
func (st *lkState) apiCtx(ctx context.Context) context.Context {
	f := st.c.fault
	if f == nil || f.hold == "" || st.fx == nil {
		return ctx
	}
	l := log.NewLogger("verif-busy-consumer").FilterLevel(log.Debug)
	l.SetHandlers(lkHoldHandler{st})
	return log.ContextWithLogger(ctx, l)
}

// replyReady: cases with a chosen reply order wait once, before the first reply, for the initial burst of queries
// (all nodes are starting nodes there), so that the order is chosen among all of them.
func (st *lkState) replyReady() bool {
	f := st.c.fault
	if f == nil || f.order == "" || st.fx == nil || st.fx.settled {
		return true
	}
	st.fx.settled = true
	time.Sleep(2 * time.Millisecond)
	lkStableGoroutines()
	return false
}

func lkOrderKey(q *lkQuery) int64 {
	if q.node != nil && q.node.genuine && q.node.item != nil && q.node.item.seq != nil {
		return *q.node.item.seq
	}
	return -1
}

// pickReply: which pending query the network answers next.  Always consumes one PRNG draw (the fault-free cases
// keep their schedules).
func (st *lkState) pickReply(pending []*lkQuery, r *rng) int {
	i := r.intn(len(pending))
	if st.fx != nil {
		st.fx.idle = 0
	}
	f := st.c.fault
	if f == nil || f.order == "" {
		return i
	}
	lo, hi := 0, 0
	for j, q := range pending {
		if lkOrderKey(q) < lkOrderKey(pending[lo]) {
			lo = j
		}
		if lkOrderKey(q) > lkOrderKey(pending[hi]) {
			hi = j
		}
	}
	switch f.order {
	case "asc":
		return lo
	case "desc":
		return hi
	case "fresh-last":
		if i == hi && len(pending) > 1 {
			return (i + 1) % len(pending)
		}
	}
	return i
}

// faultIdle is called by the network scheduler whenever it has nothing to answer.  A consumer sitting in the log
// handler is released once the network has been idle for a while and nothing moves any more: every reply that
// could arrive while the consumer is busy has arrived and has been processed by its query goroutine.
func (st *lkState) faultIdle() {
	fx := st.fx
	if fx == nil {
		return
	}
	fx.mu.Lock()
	ch := fx.held
	fx.mu.Unlock()
	if ch == nil {
		fx.idle = 0
		return
	}
	fx.idle++
	if fx.idle < 6 {
		return
	}
	lkStableGoroutines()
	if len(st.queue) != 0 {
		fx.idle = 0
		return
	}
	fx.mu.Lock()
	fx.held = nil
	fx.mu.Unlock()
	close(ch)
	fx.idle = 0
}

// faultOracles: statistics of the case (comment line), and the one thing the write-fault class adds to
// lkState.oracles: a node the socket could not be written to must not be treated as a responder.
func (st *lkState) faultOracles(res *lkResult) {
	c, fx := st.c, st.fx
	if c.fault == nil || fx == nil {
		return
	}
	fx.mu.Lock()
	fq, fa, rw, holds, nw := fx.failedQ, fx.failedA, fx.rewrites, fx.holds, fx.nwrites
	fx.mu.Unlock()
	emit("# lkfault case=%d %s fault=%s query-writes=%d failed-query-writes=%d failed-announce-writes=%d repeated-failed-writes=%d consumer-holds=%d log-calls=%d res=%s",
		c.idx, c.name(), c.fault, nw, fq, fa, rw, holds, atomic.LoadInt32(&fx.calls), res.res)
	tag := fmt.Sprintf("case=%d %s sub=%d fault=%s", c.idx, c.name(), c.sub, c.fault)
	if c.api == "announce" && res.err == nil {
		// a delivery on Peers stands for a get_peers RESPONSE: none can come from an address every query write to
		// which failed
		st.mu.Lock()
		ps := append([]string(nil), st.peers...)
		st.mu.Unlock()
		for i, k := range c.fault.wq {
			if k == "" || i >= len(c.nodes) {
				continue
			}
			at := addrTok(c.nodes[i].addr) + "|"
			for _, p := range ps {
				if strings.HasPrefix(p, at) {
					oracle("C16", "response-delivered-of-unwritable-node", "Peers carried a response of %s, every write to which failed: %s", at, tag)
				}
			}
		}
	}
}

// ---------------------------------------------------------------- cases

func lkMkItem(pub ed25519.PublicKey, priv ed25519.PrivateKey, salt []byte, seq int64, val string) *lkItem {
	bv, _ := bencode.Marshal(val)
	var k [32]byte
	copy(k[:], pub)
	var sig [64]byte
	copy(sig[:], ed25519.Sign(priv, refBufferToSign(salt, bv, seq)))
	s := seq
	return &lkItem{v: bv, k: &k, sig: &sig, seq: &s}
}

func lkFaultKind(r *rng) string {
	if r.intn(4) == 0 {
		return "short"
	}
	return "err"
}

func lkFaultCases(root *rng, tier string, add func(lkCase)) {
	mkTarget := func(r *rng) (t [20]byte) { copy(t[:], r.bytes(20)); return }
	nets, busy := 9, 10
	if tier == "thorough" {
		nets, busy = 60, 60
	}

	// ================= write faults: announce =================
	type annOpt struct {
		opts    bool
		port    int
		imp     bool
		scrape  bool
		viaTrav bool
		name    string
	}
	optsList := []annOpt{
		{true, 6881, false, false, false, "port"},
		{true, 6881, false, false, true, "traversal-api-port"},
		{true, 0, true, false, false, "implied"},
		{true, 6881, true, true, true, "traversal-api-port+implied+scrape"},
		{false, 0, false, false, true, "traversal-api-no-announce"},
	}
	patterns := []string{"one-candidate", "start-node+announce", "half+ghosts", "all-announces", "short-writes", "everything", "nth", "one-candidate-of-three", "announce-one"}
	for ni := 0; ni < nets; ni++ {
		r := root.sub(6000 + ni)
		n := 4 + r.intn(9)
		target := mkTarget(r)
		nodes := genNet(r.sub(1), n, target)
		for i, nd := range nodes {
			switch r.intn(12) {
			case 0:
				nd.token = nil
			case 1:
				nd.kind = "silent"
			case 2:
				nd.kind = "err"
			case 3:
				nd.values = []krpc.NodeAddr{{IP: net.IPv4(8, 9, byte(i), 1).To4(), Port: 7000 + i}}
			case 4:
				nd.ghosts = 1 + r.intn(3)
			case 5:
				nd.annSilent = true
			}
		}
		nodes[0].kind = "r"
		o := optsList[ni%len(optsList)]
		pat := patterns[ni%len(patterns)]
		f := &lkFault{wq: map[int]string{}, wann: map[int]string{}, nth: map[int]string{}}
		start := []int{0, n - 1}
		switch pat {
		case "one-candidate": // one candidate that is learnt from a reply sits at an unwritable address
			f.wq[1+r.intn(n-2)] = "err"
		case "start-node+announce": // a starting node is unwritable; another node answers get_peers but its announce_peer write fails
			f.wq[n-1] = "err"
			f.wann[r.intn(n-1)] = lkFaultKind(r)
		case "half+ghosts":
			for i := 1; i < n; i++ {
				if r.bool() {
					f.wq[i] = lkFaultKind(r)
				}
			}
			f.wUnknown = "err"
		case "all-announces":
			for i := 0; i < n; i++ {
				f.wann[i] = lkFaultKind(r)
			}
		case "short-writes":
			for i := 0; i < n; i++ {
				switch r.intn(3) {
				case 0:
					f.wq[i] = "short"
				case 1:
					f.wann[i] = "short"
				}
			}
		case "everything": // the socket cannot send at all
			for i := 0; i < n; i++ {
				f.wq[i] = "err"
			}
			f.wUnknown = "err"
		case "nth":
			for j := 0; j < 3; j++ {
				f.nth[1+r.intn(2*n)] = lkFaultKind(r)
			}
		case "one-candidate-of-three": // the demo's shape: several starting nodes, one of them unwritable
			start = []int{0, 1, 2}
			f.wq[1+r.intn(2)] = "err"
		case "announce-one":
			f.wann[r.intn(n)] = "err"
		}
		c := lkCase{api: "announce", sn: "ok", target: target, annOpts: o.opts, annPort: o.port, annImp: o.imp, scrape: o.scrape, viaTrav: o.viaTrav,
			nodes: nodes, start: start, stopAt: -1, consStop: -1, fault: f, desc: fmt.Sprintf("write-fault-%s-net%d-%s", pat, ni, o.name)}
		add(c)
		// the same with StopTraversing / Close while queries are in flight, and with a slow consumer
		if ni < 4 || tier == "thorough" {
			c2 := c
			c2.sub = 0
			c2.stopAt, c2.stopAct = 1+ni%2, []string{"stoptrav", "close"}[ni%2]
			c2.desc = fmt.Sprintf("write-fault-%s-net%d-%s-%s@%d", pat, ni, o.name, c2.stopAct, c2.stopAt)
			add(c2)
		}
		if ni%4 == 1 {
			c3 := c
			c3.sub = 0
			c3.slow = true
			c3.desc = fmt.Sprintf("write-fault-%s-net%d-%s-slow-consumer", pat, ni, o.name)
			add(c3)
		}
	}
	// ---- an IPv4-only socket: every IPv6 candidate (starting node or nodes6 entry) is unwritable ----
	for ni := 0; ni < 2; ni++ {
		r := root.sub(6400 + ni)
		n := 6 + r.intn(6)
		target := mkTarget(r)
		nodes := genNet(r, n, target)
		for i, nd := range nodes {
			switch (i + ni) % 3 {
			case 1:
				nd.form = "mapped"
				nd.addr = &net.UDPAddr{IP: nd.addr.IP.To16(), Port: nd.addr.Port}
			case 2:
				nd.form = "v6"
				nd.addr = &net.UDPAddr{IP: net.ParseIP(fmt.Sprintf("2001:db8:%x::%x", 0x60+ni, i+1)), Port: nd.addr.Port}
			}
		}
		o := optsList[ni%2]
		add(lkCase{api: "announce", sn: "ok", target: target, annOpts: o.opts, annPort: o.port, annImp: o.imp, scrape: o.scrape, viaTrav: o.viaTrav,
			nodes: nodes, start: []int{0, 1, 2}, stopAt: -1, consStop: -1, fault: &lkFault{wV6: "err"},
			desc: fmt.Sprintf("write-fault-ipv6-unwritable-%d-%s", ni, o.name)})
	}
	// ---- repeated: resources must not accumulate over announces that meet write faults ----
	{
		r := root.sub(6450)
		n := 5
		target := mkTarget(r)
		nodes := genNet(r, n, target)
		f := &lkFault{wq: map[int]string{1: "err"}, wann: map[int]string{0: "err", 2: "short"}}
		add(lkCase{api: "announce", sn: "ok", target: target, annOpts: true, annPort: 6881, nodes: nodes, start: []int{0, 1, 2}, stopAt: -1, consStop: -1,
			reps: 8, fault: f, desc: "write-fault-repeated"})
	}

	// ================= write faults: bootstrap, get, put =================
	for ni := 0; ni < 3; ni++ {
		r := root.sub(6500 + ni)
		n := 4 + r.intn(10)
		var target [20]byte
		target[0], target[19] = 0x42, 0x24
		nodes := genNet(r, n, target)
		f := &lkFault{wq: map[int]string{}}
		for i := 1; i < n; i++ {
			if r.intn(3) == 0 {
				f.wq[i] = lkFaultKind(r)
			}
		}
		if ni == 2 {
			f.wq[0] = "err"
		}
		if len(f.wq) == 0 {
			f.wq[1+r.intn(n-1)] = "err"
		}
		add(lkCase{api: "bootstrap", sn: "ok", target: target, nodes: nodes, start: []int{0, n - 1}, stopAt: -1, consStop: -1, fault: f,
			desc: fmt.Sprintf("write-fault-net%d", ni)})
	}
	for ni := 0; ni < 4; ni++ {
		r := root.sub(6600 + ni)
		pub, priv, _ := ed25519.GenerateKey(bytes.NewReader(r.bytes(64)))
		salt := [][]byte{nil, []byte("s")}[ni%2]
		target := sha1.Sum(append(append([]byte(nil), pub...), salt...))
		api := []string{"get", "put"}[ni%2]
		n := 4 + r.intn(6)
		nodes := genNet(r, n, target)
		for i, nd := range nodes {
			if i%2 == 0 {
				seq := int64(1 + i)
				nd.item, nd.genuine, nd.flavour = lkMkItem(pub, priv, salt, seq, fmt.Sprintf("v%d", seq)), true, "genuine"
			}
		}
		f := &lkFault{wq: map[int]string{}, wann: map[int]string{}}
		// the node holding the freshest item is unwritable in half of the cases: the result is the freshest SERVED one
		if ni < 2 {
			f.wq[(n-1)/2*2] = "err"
		} else {
			f.wq[1] = lkFaultKind(r)
		}
		f.wann[0] = lkFaultKind(r)
		add(lkCase{api: api, sn: "ok", target: target, salt: salt, pub: pub, priv: priv, mutable: true, putValue: "mine", nodes: nodes, start: []int{0, 1, n - 1},
			stopAt: -1, consStop: -1, fault: f, desc: fmt.Sprintf("write-fault-mutable-net%d", ni)})
	}

	// ================= busy Get consumer x reply orders =================
	orders := []string{"asc", "fresh-last", "asc", "desc", ""}
	holds := []string{"every", "every", "first", "every", "sleep"}
	for ni := 0; ni < busy; ni++ {
		r := root.sub(6800 + ni)
		pub, priv, _ := ed25519.GenerateKey(bytes.NewReader(r.bytes(64)))
		pub2, priv2, _ := ed25519.GenerateKey(bytes.NewReader(r.bytes(64)))
		salt := [][]byte{nil, []byte("s"), bytes.Repeat([]byte("y"), 64)}[ni%3]
		target := sha1.Sum(append(append([]byte(nil), pub...), salt...))
		n := 3 + r.intn(6)
		nodes := genNet(r, n, target)
		// distinct seqs for the genuine copies (a permutation of 1..n), so that the result does not depend on
		// which of two blocked query goroutines hands over first
		perm := make([]int, n)
		for i := range perm {
			perm[i] = i + 1
		}
		for i := n - 1; i > 0; i-- {
			j := r.intn(i + 1)
			perm[i], perm[j] = perm[j], perm[i]
		}
		ngen := 0
		for i, nd := range nodes {
			seq := int64(perm[i])
			fl := r.intn(10)
			if i < 2 {
				fl = 0 // at least two genuine copies of different age
			}
			switch {
			case fl < 5:
				nd.item, nd.genuine, nd.flavour = lkMkItem(pub, priv, salt, seq, fmt.Sprintf("v%d", seq)), true, "genuine"
				ngen++
			case fl == 5: // claims a seq above every genuine one, signature of another seq
				it := lkMkItem(pub, priv, salt, seq, "v")
				hi := int64(100 + i)
				it.seq = &hi
				nd.item, nd.flavour = it, "forged-seq"
			case fl == 6:
				it := lkMkItem(pub, priv, salt, seq, "other")
				it.v, _ = bencode.Marshal("forged")
				nd.item, nd.flavour = it, "forged-value"
			case fl == 7:
				it := lkMkItem(pub2, priv2, salt, 99, "evil")
				var k [32]byte
				copy(k[:], pub)
				it.k = &k
				nd.item, nd.flavour = it, "wrong-signer"
			case fl == 8:
				nd.flavour = "no-item"
			case fl == 9:
				nd.kind = "silent"
			}
			if r.intn(8) == 0 {
				nd.token = nil
			}
		}
		start := make([]int, n)
		for i := range start {
			start[i] = i // everything is in flight at once (alpha = 15)
		}
		f := &lkFault{hold: holds[ni%len(holds)], order: orders[ni%len(orders)]}
		c := lkCase{api: "get", sn: "ok", target: target, salt: salt, pub: pub, priv: priv, mutable: true, nodes: nodes, start: start,
			stopAt: -1, consStop: -1, fault: f, desc: fmt.Sprintf("busy-consumer-net%d-%s-%s-%dgenuine", ni, f.hold, map[bool]string{true: "random", false: f.order}[f.order == ""], ngen)}
		if ni%5 == 3 {
			arg := int64(1)
			c.seqArg = &arg
			c.desc += "-seq-arg-1"
		}
		add(c)
		if ni == 1 || ni == 3 {
			// the caller's context is cancelled while the consumer is busy
			c2 := c
			c2.sub = 0
			c2.stopAt, c2.stopAct = 1, "ctx"
			c2.desc += "-ctx@1"
			add(c2)
		}
	}
	// ---- immutable target, busy consumer: the first genuine copy ends the Get while the others are still arriving ----
	for ni := 0; ni < 2; ni++ {
		r := root.sub(6950 + ni)
		bv, _ := bencode.Marshal(fmt.Sprintf("immutable-busy-%d", ni))
		it := sha1.Sum(bv)
		n := 4 + r.intn(3)
		nodes := genNet(r, n, it)
		for i, nd := range nodes {
			switch i % 3 {
			case 0:
				wrong, _ := bencode.Marshal("not-the-value")
				nd.item, nd.flavour = &lkItem{v: wrong}, "wrong-value"
			default:
				nd.item, nd.genuine, nd.flavour = &lkItem{v: bv}, true, "genuine-immutable"
			}
		}
		start := make([]int, n)
		for i := range start {
			start[i] = i
		}
		add(lkCase{api: "get", sn: "ok", target: it, nodes: nodes, start: start, stopAt: -1, consStop: -1,
			fault: &lkFault{hold: []string{"every", "sleep"}[ni]}, desc: fmt.Sprintf("busy-consumer-immutable-%d", ni)})
	}
}
