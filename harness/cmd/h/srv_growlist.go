package main

// Oracle-only part of the server engine (C19): a blocklist that is EMPTY when it is installed and
// grows afterwards. ServerConfig.IPBlocklist / SetIPBlockList take an iplist.Ranger, an interface:
// an application's ban list that starts empty (or a predicate-style Ranger that reports no ranges)
// is a configured blocklist, and whatever it covers at the time of a datagram is blocked.

import (
	"bytes"
	"net"
	"sync"
	"sync/atomic"
	"time"

	"github.com/anacrolix/log"
	"github.com/anacrolix/torrent/bencode"
	"github.com/anacrolix/torrent/iplist"
	"golang.org/x/time/rate"

	dht "github.com/anacrolix/dht/v2"
	"github.com/anacrolix/dht/v2/krpc"
)

type growRanger struct {
	mu        sync.Mutex
	banned    [][2]net.IP // inclusive ranges, 16-byte form
	reportLen bool        // NumRanges() reports the number of ranges (false: always 0, a predicate-style list)
}

func (g *growRanger) ban(first, last net.IP) {
	g.mu.Lock()
	g.banned = append(g.banned, [2]net.IP{first.To16(), last.To16()})
	g.mu.Unlock()
}

func (g *growRanger) Lookup(ip net.IP) (iplist.Range, bool) {
	x := ip.To16()
	g.mu.Lock()
	defer g.mu.Unlock()
	for _, b := range g.banned {
		if x != nil && bytes.Compare(x, b[0]) >= 0 && bytes.Compare(x, b[1]) <= 0 {
			return iplist.Range{First: b[0], Last: b[1], Description: "banned later"}, true
		}
	}
	return iplist.Range{}, false
}

func (g *growRanger) NumRanges() int {
	g.mu.Lock()
	defer g.mu.Unlock()
	if !g.reportLen {
		return 0
	}
	return len(g.banned)
}

func growListCase(seed uint64, n int) {
	r := (&rng{s: seed ^ 0x960715}).sub(n)
	g := &growRanger{reportLen: n%2 == 0}
	atConstruction := n%4 < 2
	conn := newFakeConn()
	hookCalls := 0
	var hookMu sync.Mutex
	var victim *net.UDPAddr
	cfg := &dht.ServerConfig{
		Conn:          conn,
		NoSecurity:    true,
		StartingNodes: func() ([]dht.Addr, error) { return nil, nil },
		Logger:        log.NewLogger().FilterLevel(log.Critical),
		SendLimiter:   rate.NewLimiter(rate.Inf, 1),
		OnQuery: func(q *krpc.Msg, a net.Addr) bool {
			hookMu.Lock()
			if victim != nil && a.String() == victim.String() {
				hookCalls++
			}
			hookMu.Unlock()
			return true
		},
	}
	if atConstruction {
		cfg.IPBlocklist = g
	}
	s, err := dht.NewServer(cfg)
	if err != nil {
		emit("# growing blocklist: NewServer: %v", err)
		return
	}
	defer func() { s.Close(); conn.Close() }()
	for atomic.LoadInt64(&conn.reads) == 0 {
		time.Sleep(50 * time.Microsecond)
	}
	if !atConstruction {
		s.SetIPBlockList(g)
	}
	v := randAddr(r, n%3)
	hookMu.Lock()
	victim = v
	hookMu.Unlock()
	ctl := randAddr(r, 0)
	how := map[bool]string{true: "at-construction", false: "SetIPBlockList"}[atConstruction] + map[bool]string{true: "", false: ":reports-no-ranges"}[g.reportLen]
	// the list grows: the victim's address is covered from now on
	g.ban(v.IP, v.IP)
	var id [20]byte
	copy(id[:], r.bytes(20))
	conn.takeWrites()
	conn.inject(bencode.MustMarshal(krpc.Msg{Q: "ping", Y: "q", T: "gv", A: &krpc.MsgArgs{ID: id}}), v, 3*time.Second)
	// fence: a ping from an address that is not covered, processed afterwards, is answered
	conn.inject(bencode.MustMarshal(krpc.Msg{Q: "ping", Y: "q", T: "gc", A: &krpc.MsgArgs{ID: id}}), ctl, 3*time.Second)
	fenceOK, toVictim := false, 0
	deadline := time.Now().Add(3 * time.Second)
	for time.Now().Before(deadline) && !fenceOK {
		for _, w := range conn.takeWrites() {
			if w.addr.String() == v.String() {
				toVictim++
			}
			if m, ok := decodeLikeServer(w.data); ok && m.T == "gc" && w.addr.String() == ctl.String() {
				fenceOK = true
			}
		}
		time.Sleep(time.Millisecond)
	}
	time.Sleep(30 * time.Millisecond)
	for _, w := range conn.takeWrites() {
		if w.addr.String() == v.String() {
			toVictim++
		}
	}
	inTable := false
	for _, ni := range s.Nodes() {
		if ni.Addr.IP.Equal(v.IP) && ni.Addr.Port == v.Port {
			inTable = true
		}
	}
	hookMu.Lock()
	hc := hookCalls
	hookMu.Unlock()
	if !fenceOK {
		emit("# growing blocklist %d (%s): the control ping was not answered; no verdict", n, how)
		return
	}
	if toVictim > 0 || inTable || hc > 0 {
		oracle("C19", "blocked-source-had-effect:list-empty-when-installed:"+how, "a ping from %s, covered by the blocklist since before it was sent, had effects: datagrams-to-it=%d table-entry=%v OnQuery-calls=%d", v, toVictim, inTable, hc)
	}
	// our own query to the covered address: nothing may be written
	res := s.Ping(v)
	wrote := 0
	for _, w := range conn.takeWrites() {
		if w.addr.String() == v.String() {
			wrote++
		}
	}
	if wrote > 0 {
		oracle("C19", "datagram-to-blocked-address:list-empty-when-installed:"+how, "Server.Ping(%s) wrote %d datagram(s) to an address the blocklist covers (err=%v)", v, wrote, res.Err)
	}
	emit("# growing blocklist %d (%s): victim=%s datagrams-to-it=%d table-entry=%v hook=%d own-query-datagrams=%d", n, how, v, toVictim, inTable, hc, wrote)
}
